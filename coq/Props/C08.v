(* C08 — bus framing of drawing calls: every drawing call emits nothing but
   (CASET RASET RAMWR PIXELS)*; windows are well-formed and addressable; no burst is longer than its
   window; fills use exactly one window. Statements only; proofs in Proofs/ProgramP.v. *)
Require Import Model.Base Model.Orient Model.Dcs Model.Events Model.Builder Model.Rect Model.Batch Model.Display.
Require Import Oracle.Spec Oracle.Controller Oracle.DrawSpec.
Require Import Proofs.DcsP Proofs.WindowP Proofs.CtlP Proofs.DrawP Proofs.ClipP Proofs.BatchP Proofs.OrientStateP
               Proofs.ProgramP.
Open Scope Z_scope.

(* Any well-formed program (see C02): the trace of EVERY drawing call satisfies the framing grammar
   `framing_ok` (Oracle/DrawSpec.v: groups of set_column_address with 4 parameter bytes,
   set_page_address with 4, write_memory_start with none, one pixel transfer) and `bursts_fit`
   (Proofs/ProgramP.v: the transfer of each group carries at most — a repeat: exactly — as many pixels
   as (ec - sc + 1) * (ep - sp + 1) for the window announced just before it); and the reference
   controller raises none of its anomaly flags: no wrong parameter count, no start > end, no window
   beyond the addressable extent under the current MV, no pixels without RAMWR, no pointer wrap *)
Theorem C08_framing : forall c ops st k,
  valid_cfg c (d_opts st) -> madctl_ok st -> ctl_matches c (d_opts st) k ->
  (1 <= c_rowcap c)%nat -> (c_rowcap c <= c_blockcap c)%nat -> prog_wf (d_opts st) ops ->
  Forall2 (fun op tr => is_draw op = true -> framing_ok (fst tr) = true /\ bursts_fit (fst tr) = true)
          ops (fst (exec c st ops)) /\
  k_flags (ctl_run k (exec_trace c st ops)) = k_flags k.
Proof. exact exec_framing. Qed.

(* one call, no controller needed *)
Theorem C08_framing_op : forall c st (op : pop),
  valid_cfg c (d_opts st) -> (1 <= c_rowcap c)%nat -> (c_rowcap c <= c_blockcap c)%nat ->
  op_wf (d_opts st) op -> is_draw op = true ->
  framing_ok (fst (fst (step c st op))) = true /\ bursts_fit (fst (fst (step c st op))) = true.
Proof. exact step_framing. Qed.

(* set_pixel, set_pixels, clear: exactly one window; fill_solid / fill_contiguous: exactly one when
   part of the rectangle is visible, none otherwise; draw_iter: at most one per in-bounds pixel
   (exactly one without the batch feature) *)
Theorem C08_one_window_per_fill : forall c st (op : pop),
  valid_cfg c (d_opts st) -> (1 <= c_rowcap c)%nat -> (c_rowcap c <= c_blockcap c)%nat ->
  op_wf (d_opts st) op ->
  let t := fst (fst (step c st op)) in
  let lw := fst (lsize (d_opts st)) in
  let lh := snd (lsize (d_opts st)) in
  match op with
  | PSetPixel _ _ _ | PSetPixels _ _ _ _ _ | PClear _ => count_ramwr t = 1
  | PFillContig r _ | PFillContigGen r _ | PFillSolid r _ => count_ramwr t = if visible r lw lh then 1 else 0
  | PDrawIter ps =>
      0 <= count_ramwr t <= Z.of_nat (length (filter (in_bbox (d_opts st)) ps)) /\
      (c_batch c = false -> count_ramwr t = Z.of_nat (length (filter (in_bbox (d_opts st)) ps)))
  | _ => True
  end.
Proof. exact step_ramwr_count. Qed.

(* the burst of one window: `bursts_fit` of CASET(sx+dx, ex+dx) RASET(sy+dy, ey+dy) RAMWR e is the
   plain comparison of the transfer length with the window area (big-endian parameters decoded) *)
Theorem C08_burst_fits : forall c o sx sy ex ey e,
  bursts_fit (burst c o sx sy ex ey e) = burst_len_ok e ((ex - sx + 1) * (ey - sy + 1)).
Proof. exact bursts_fit_burst. Qed.

(* the three sources of bursts: set_pixels as called by fill_contiguous (at most the visible area),
   by the batcher (exactly the block area), and fill_solid's repeat (exactly the visible area: see
   C02_rect_clip_solid) *)
Theorem C08_burst_fits_contiguous : forall (a : rect) (lw lh : Z) (cs : list Z),
  visible a lw lh = true ->
  Z.of_nat (length (clip_colors a lw lh cs)) <= (vx1 a lw - vx0 a) * (vy1 a lh - vy0 a).
Proof. exact clip_colors_length. Qed.

Theorem C08_burst_fits_blocks : forall md cap bcap (ps : list pixel),
  (1 <= cap)%nat -> (cap <= bcap)%nat -> Forall in_range ps ->
  exists bs, blocks_of md bcap (rows_of cap ps) = (bs, Ok tt) /\
    concat (map block_pixels bs) = ps /\ Forall (block_ok bcap) bs.
Proof. exact batch_flatten. Qed.

(* the single-window decode the above rests on (repeated from C01 for reference): a burst no longer
   than the window leaves the controller's flags untouched *)
Theorem C08_window_decoding : forall c o k sx sy ex ey cs,
  valid_cfg c o -> ctl_matches c o k ->
  0 <= sx <= ex -> ex < fst (lsize o) -> 0 <= sy <= ey -> ey < snd (lsize o) ->
  (length cs <= Z.to_nat (ex - sx + 1) * Z.to_nat (ey - sy + 1))%nat ->
  let '(dx, dy) := win_off c o in
  let t := [ECmd 0x2A (be16 (sx + dx) ++ be16 (ex + dx)); ECmd 0x2B (be16 (sy + dy) ++ be16 (ey + dy));
            ECmd 0x2C []; EPixels (map (c_enc c) cs)] in
  set_pixels c o sx sy ex ey cs = (t, Ok tt) /\
  let k' := ctl_run k t in
  same_regs k k' /\ ctl_matches c o k' /\
  writes k' = writes k ++ zip_rows (c_enc c) (panel_of o) (o_orient o) sx sy
                                   (Z.to_nat (ex - sx + 1)) (Z.to_nat (ey - sy + 1)) cs /\
  framing_ok t = true.
Proof. exact set_pixels_decode. Qed.

(* ---- non-vacuity ---- *)
Definition ex_c b := {| c_md := Release; c_batch := b; c_fw := 240; c_fh := 320; c_enc := fun v => [v];
                        c_rowcap := 50; c_blockcap := 100 |}.
Definition ex_o := {| o_bgr := false; o_orient := {| rotn := D180; mir := false |}; o_inv := false;
                      o_btt := false; o_rtl := false; o_w := 100; o_h := 50; o_ox := 3; o_oy := 7 |}.
Definition ex_st := fresh_state ex_o.
Definition ex_k := ctl_run (power_on 240 320) [ECmd 0x36 [madctl_of_opts ex_o]].
Definition ex_prog : list pop :=
  [ PClear 1;
    PFillSolid {| rx := 90; ry := 40; rw := 50; rh := 50 |} 2;
    PFillSolid {| rx := 100; ry := 0; rw := 5; rh := 5 |} 3;
    PFillContig {| rx := -1; ry := 0; rw := 3; rh := 2 |} [1; 2; 3; 4; 5; 6; 7];
    PDrawIter [(0, 0, 1); (1, 0, 2); (2, 0, 3); (0, 1, 4); (1, 1, 5); (2, 1, 6); (7, 7, 7); (-1, -1, 8)];
    PSetPixels 10 10 12 11 [1; 2; 3; 4] ].

Example C08_ex_hyps : forall b,
  valid_cfg (ex_c b) (d_opts ex_st) /\ madctl_ok ex_st /\ ctl_matches (ex_c b) (d_opts ex_st) ex_k /\
  (1 <= c_rowcap (ex_c b))%nat /\ (c_rowcap (ex_c b) <= c_blockcap (ex_c b))%nat /\
  prog_wf (d_opts ex_st) ex_prog.
Proof.
  intros b.
  split; [unfold valid_cfg; cbn; lia|]. split; [reflexivity|].
  split; [unfold ctl_matches; vm_compute; repeat split|].
  split; [cbn; lia|]. split; [cbn; lia|].
  unfold ex_prog, prog_wf, op_wf, rect_valid, i32. cbn [d_opts ex_st fresh_state lsize ex_o
    o_orient rotn is_horizontal o_w o_h set_orient rx ry rw rh length].
  change (2 ^ 31) with 2147483648. change (2 ^ 32) with 4294967296.
  repeat (split; try lia); repeat constructor; try lia.
Qed.

(* windows per call, with the batch feature (the 3 x 2 block is ONE window) and without *)
Example C08_ex_counts :
  map (fun tr => count_ramwr (fst tr)) (fst (exec (ex_c true) ex_st ex_prog)) = [1; 1; 0; 1; 2; 1] /\
  map (fun tr => count_ramwr (fst tr)) (fst (exec (ex_c false) ex_st ex_prog)) = [1; 1; 0; 1; 7; 1] /\
  forallb (fun tr => framing_ok (fst tr) && bursts_fit (fst tr)) (fst (exec (ex_c true) ex_st ex_prog)) = true /\
  k_flags (ctl_run ex_k (exec_trace (ex_c true) ex_st ex_prog)) = [].
Proof. vm_compute. repeat split. Qed.

(* the checkers are not trivially true: a 2 x 1 window with three pixels, a repeat one short, a burst
   without RAMWR, an orientation change in a drawing call; and the controller flags the overrun *)
Example C08_ex_checkers_reject :
  bursts_fit [ECmd 0x2A [0; 5; 0; 6]; ECmd 0x2B [0; 9; 0; 9]; ECmd 0x2C []; EPixels [[1]; [2]; [3]]] = false /\
  bursts_fit [ECmd 0x2A [0; 5; 0; 6]; ECmd 0x2B [0; 9; 0; 9]; ECmd 0x2C []; EPixels [[1]; [2]]] = true /\
  bursts_fit [ECmd 0x2A [0; 5; 0; 6]; ECmd 0x2B [0; 9; 0; 9]; ECmd 0x2C []; ERepeat [1] 1] = false /\
  framing_ok [ECmd 0x2A [0; 5; 0; 6]; ECmd 0x2B [0; 9; 0; 9]; EPixels [[1]]] = false /\
  framing_ok [ECmd 0x36 [0]; ECmd 0x2A [0; 5; 0; 6]; ECmd 0x2B [0; 9; 0; 9]; ECmd 0x2C []; EPixels [[1]]] = false /\
  k_flags (ctl_run (power_on 240 320)
             [ECmd 0x2A [0; 5; 0; 6]; ECmd 0x2B [0; 9; 0; 9]; ECmd 0x2C []; EPixels [[1]; [2]; [3]]]) = [PointerWrap].
Proof. vm_compute. repeat split. Qed.
