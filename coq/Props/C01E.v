(* C01E — end to end: Builder::init of ANY built-in model, then ANY program, from controller power-on.
   Statements only; proofs (pure composition of InitP / BuilderP / ProgramP / SleepP / DecodeP) in
   Proofs/EndToEndP.v.

   Quantification, the same in every theorem below:
     m    any of the 14 built-in models (Gen/Models.v, regenerated from src/models/*.rs)
     k    any interface kind the model's init accepts (supported (m_prog m) k = true)
     o    any option set Builder::init accepts for that model's framebuffer (init_check ... = Ok tt);
          display size and offset are u16 in the crate — the four u16 hypotheses are what the Rust types
          guarantee; colour order, orientation, inversion, refresh orders arbitrary
     rst  with or without a reset pin
     md   either build profile;  c  the Display's context for that model: same profile, the model's
          framebuffer size, the crate's own batching capacities (Gen/Consts.v); batch feature on or off
          and the colour encoder are arbitrary
   Spelled out:
     (t0, r) = builder_init md FW FH rst o (run_init k colour o init-program)   the Builder::init call
     K0      = ctl_run (power_on FW FH) t0       the reference controller after it, from power-on
     fresh_state o                               the Display it returns                              *)
Require Import Model.Base Model.Orient Model.Dcs Model.Events Model.Builder Model.Rect Model.Batch Model.Display
               Model.InitLang Model.Spi Model.Parallel.
Require Import Oracle.Spec Oracle.Controller Oracle.DrawSpec Oracle.InitSpec Oracle.Decode.
Require Import Gen.Consts Gen.Models.
Require Import Proofs.DcsP Proofs.WindowP Proofs.CtlP Proofs.DrawP Proofs.OrientStateP Proofs.BuilderP
               Proofs.InitP Proofs.ProgramP Proofs.SleepP Proofs.EndToEndP.
From Coq Require Import String.
Open Scope list_scope.   (* Gen.Models / Gen.Consts leave string_scope open *)
Open Scope Z_scope.

(* ---------------------------------------------------------------- 0. the framebuffer size is fixed *)

(* no event trace whatsoever changes the reference controller's framebuffer size *)
Theorem C01E_ctl_run_dims : forall (t : list event) (k : ctl),
  k_fw (ctl_run k t) = k_fw k /\ k_fh (ctl_run k t) = k_fh k.
Proof. exact ctl_run_dims. Qed.

(* ---------------------------------------------------------------- 1. init establishes the invariants *)

(* Builder::init returns Ok with the fresh Display state, and leaves driver and controller in the
   relation every drawing theorem (C01-C04, C08) and the sleep theorem (C13) start from: configuration
   valid, cached MADCTL = encoding of the options, controller on the user command page with the
   model's framebuffer size and the MY/MX/MV bits of the orientation, frame memory never written, no
   anomaly flagged since power-on, capacities as the batching proofs need, sleep invariant, awake *)
Theorem C01E_init_establishes_invariants :
  forall (md : mode) (m : model_def) (k : kind) (o : opts) (rst : bool) (c : ctx),
  In m gen_models -> supported (m_prog m) k = true ->
  u16 (o_w o) -> u16 (o_h o) -> u16 (o_ox o) -> u16 (o_oy o) ->
  init_check md (m_fw m) (m_fh m) (o_w o) (o_h o) (o_ox o) (o_oy o) = Ok tt ->
  c_md c = md -> c_fw c = m_fw m -> c_fh c = m_fh m ->
  c_rowcap c = Z.to_nat gen_MAX_ROW_SIZE -> c_blockcap c = Z.to_nat gen_MAX_BLOCK_SIZE ->
  let ir := builder_init md (m_fw m) (m_fh m) rst o (run_init k (m_color m) o (m_prog m)) in
  let K0 := ctl_run (power_on (m_fw m) (m_fh m)) (fst ir) in
  snd ir = Ok (fresh_state o) /\
  valid_cfg c o /\ madctl_ok (fresh_state o) /\ ctl_matches c o K0 /\
  writes K0 = [] /\ k_flags K0 = [] /\
  (1 <= c_rowcap c)%nat /\ (c_rowcap c <= c_blockcap c)%nat /\
  sleep_inv K0 /\ k_asleep K0 = d_sleeping (fresh_state o).
Proof. exact init_establishes_draw_inv. Qed.

(* ---------------------------------------------------------------- 2. MAIN: init, then any drawing program *)

(* Property C01 from power-on, for all built-in models x supported kinds x accepted option sets x
   reset pin x well-formed drawing programs (set_pixel(s) in bounds; draw_iter / fill_* / clear with
   arbitrary i32 coordinates; set_orientation; any length, any interleaving):
     - init returns Ok, and every call of the program returns Ok;
     - the write history the reference controller decodes from ALL the traffic since power-on is,
       entry by entry, the specification's list for the program (init writes nothing);
     - the controller flags no anomaly at all since power-on;
     - hence every cell of the frame memory holds the LAST specified write covering it, and None when
       no specified write covers it — in particular every cell outside the panel area is None;
     - the invariants hold again afterwards (the final state is the fold of op_post) *)
Theorem C01E_init_then_program :
  forall (md : mode) (m : model_def) (k : kind) (o : opts) (rst : bool) (c : ctx) (ops : list pop),
  In m gen_models -> supported (m_prog m) k = true ->
  u16 (o_w o) -> u16 (o_h o) -> u16 (o_ox o) -> u16 (o_oy o) ->
  init_check md (m_fw m) (m_fh m) (o_w o) (o_h o) (o_ox o) (o_oy o) = Ok tt ->
  c_md c = md -> c_fw c = m_fw m -> c_fh c = m_fh m ->
  c_rowcap c = Z.to_nat gen_MAX_ROW_SIZE -> c_blockcap c = Z.to_nat gen_MAX_BLOCK_SIZE ->
  prog_wf o ops ->
  let ir := builder_init md (m_fw m) (m_fh m) rst o (run_init k (m_color m) o (m_prog m)) in
  let K0 := ctl_run (power_on (m_fw m) (m_fh m)) (fst ir) in
  let st' := snd (exec c (fresh_state o) ops) in
  let K := ctl_run K0 (exec_trace c (fresh_state o) ops) in
  let ws := spec_prog_writes (c_enc c) (panel_of o) (o_orient o) ops in
  snd ir = Ok (fresh_state o) /\
  exec_all_ok c (fresh_state o) ops = true /\
  writes K = ws /\
  k_flags K = [] /\
  (forall x y, mem K x y = last_write ws x y None) /\
  (forall x y, (forall w, In w ws -> covers w x y = false) -> mem K x y = None) /\
  (forall x y, ~ (o_ox o <= x < o_ox o + o_w o /\ o_oy o <= y < o_oy o + o_h o) -> mem K x y = None) /\
  st' = fold_left op_post ops (fresh_state o) /\
  valid_cfg c (d_opts st') /\ madctl_ok st' /\ ctl_matches c (d_opts st') K.
Proof. exact init_then_program. Qed.

(* ---------------------------------------------------------------- 3. init, then ANY history: sleep bookkeeping *)

(* Property C13 from power-on: after Builder::init and ANY sequence of Display calls (sleep, wake,
   drawing, orientation, scrolling, tearing; any arguments, in bounds or not; any context): is_sleeping()
   equals the reference controller's sleep state, is true exactly when the last of sleep / wake called
   was sleep (false when neither was), and the controller never saw two sleep-in / sleep-out commands
   less than 120 ms apart — counting the sleep-out of init itself *)
Theorem C13E_init_then_history :
  forall (md : mode) (m : model_def) (k : kind) (o : opts) (rst : bool) (c : ctx) (ops : list pop),
  In m gen_models -> supported (m_prog m) k = true ->
  init_check md (m_fw m) (m_fh m) (o_w o) (o_h o) (o_ox o) (o_oy o) = Ok tt ->
  let ir := builder_init md (m_fw m) (m_fh m) rst o (run_init k (m_color m) o (m_prog m)) in
  let K0 := ctl_run (power_on (m_fw m) (m_fh m)) (fst ir) in
  let st' := snd (exec c (fresh_state o) ops) in
  let K := ctl_run K0 (exec_trace c (fresh_state o) ops) in
  snd ir = Ok (fresh_state o) /\
  d_sleeping st' = k_asleep K /\
  d_sleeping st' = last_sleep_op ops false /\
  ~ In SleepSpacing (k_flags K) /\
  sleep_inv K.
Proof. exact init_then_history_sleep. Qed.

(* ---------------------------------------------------------------- 4. the program at pin level *)

(* init, then a well-formed drawing program carried by the real SPI transport (encoder: n bytes per
   pixel; staging buffer holding at least one pixel, any stale content; any initial DC level): the
   transport returns Ok; the reference controller, fed the events DECODED FROM THE PINS, holds in every
   cell what it holds after the traffic at the Interface boundary, which is the last specified write
   (None where nothing was specified); no anomaly since power-on *)
Theorem C01E_pin_level_spi :
  forall (md : mode) (m : model_def) (k : kind) (o : opts) (rst : bool) (c : ctx) (ops : list pop)
         (n : Z) (buf : list Z) (dc0 : bool),
  In m gen_models -> supported (m_prog m) k = true ->
  u16 (o_w o) -> u16 (o_h o) -> u16 (o_ox o) -> u16 (o_oy o) ->
  init_check md (m_fw m) (m_fh m) (o_w o) (o_h o) (o_ox o) (o_oy o) = Ok tt ->
  c_md c = md -> c_fw c = m_fw m -> c_fh c = m_fh m ->
  c_rowcap c = Z.to_nat gen_MAX_ROW_SIZE -> c_blockcap c = Z.to_nat gen_MAX_BLOCK_SIZE ->
  prog_wf o ops ->
  (forall col, Z.of_nat (List.length (c_enc c col)) = n) ->
  1 <= n -> n <= Z.of_nat (List.length buf) -> Z.of_nat (List.length buf) / n < 2 ^ 32 ->
  let ir := builder_init md (m_fw m) (m_fh m) rst o (run_init k (m_color m) o (m_prog m)) in
  let K0 := ctl_run (power_on (m_fw m) (m_fh m)) (fst ir) in
  let t := exec_trace c (fresh_state o) ops in
  let ws := spec_prog_writes (c_enc c) (panel_of o) (o_orient o) ops in
  let '(l2, _, r) := spi_run true n buf t in
  r = Ok tt /\
  let K := ctl_run K0 (decode_items (Z.to_nat n) None [] (wire_spi dc0 l2)) in
  (forall x y, mem K x y = mem (ctl_run K0 t) x y /\ mem K x y = last_write ws x y None) /\
  k_flags K = [].
Proof. exact init_then_program_spi. Qed.

(* the 8-bit parallel bus: n >= 1 bytes per pixel; either build profile of the transport; any cache
   state consistent with the pins, any DC / WR level *)
Theorem C01E_pin_level_par_8 :
  forall (md : mode) (m : model_def) (k : kind) (o : opts) (rst : bool) (c : ctx) (ops : list pop)
         (pmd : mode) (n : nat) (last : option Z) (lst : lines),
  In m gen_models -> supported (m_prog m) k = true ->
  u16 (o_w o) -> u16 (o_h o) -> u16 (o_ox o) -> u16 (o_oy o) ->
  init_check md (m_fw m) (m_fh m) (o_w o) (o_h o) (o_ox o) (o_oy o) = Ok tt ->
  c_md c = md -> c_fw c = m_fw m -> c_fh c = m_fh m ->
  c_rowcap c = Z.to_nat gen_MAX_ROW_SIZE -> c_blockcap c = Z.to_nat gen_MAX_BLOCK_SIZE ->
  prog_wf o ops ->
  (1 <= n)%nat ->
  (forall col, List.length (c_enc c col) = n) ->
  (forall col, Forall (fun x => 0 <= x < 2 ^ Z.of_nat 8) (c_enc c col)) ->
  bus_inv 8 (last, l_pins lst) ->
  let ir := builder_init md (m_fw m) (m_fh m) rst o (run_init k (m_color m) o (m_prog m)) in
  let K0 := ctl_run (power_on (m_fw m) (m_fh m)) (fst ir) in
  let t := exec_trace c (fresh_state o) ops in
  let ws := spec_prog_writes (c_enc c) (panel_of o) (o_orient o) ops in
  let '(l2, _, r) := par_run true pmd 8 last t in
  r = Ok tt /\
  let K := ctl_run K0 (decode_items n None [] (wire_par lst l2)) in
  (forall x y, mem K x y = mem (ctl_run K0 t) x y /\ mem K x y = last_write ws x y None) /\
  k_flags K = [].
Proof. exact init_then_program_par_8. Qed.

(* the 16-bit parallel bus: one bus word per pixel *)
Theorem C01E_pin_level_par_16 :
  forall (md : mode) (m : model_def) (k : kind) (o : opts) (rst : bool) (c : ctx) (ops : list pop)
         (pmd : mode) (last : option Z) (lst : lines),
  In m gen_models -> supported (m_prog m) k = true ->
  u16 (o_w o) -> u16 (o_h o) -> u16 (o_ox o) -> u16 (o_oy o) ->
  init_check md (m_fw m) (m_fh m) (o_w o) (o_h o) (o_ox o) (o_oy o) = Ok tt ->
  c_md c = md -> c_fw c = m_fw m -> c_fh c = m_fh m ->
  c_rowcap c = Z.to_nat gen_MAX_ROW_SIZE -> c_blockcap c = Z.to_nat gen_MAX_BLOCK_SIZE ->
  prog_wf o ops ->
  (forall col, List.length (c_enc c col) = 1%nat) ->
  (forall col, Forall (fun x => 0 <= x < 2 ^ Z.of_nat 16) (c_enc c col)) ->
  bus_inv 16 (last, l_pins lst) ->
  let ir := builder_init md (m_fw m) (m_fh m) rst o (run_init k (m_color m) o (m_prog m)) in
  let K0 := ctl_run (power_on (m_fw m) (m_fh m)) (fst ir) in
  let t := exec_trace c (fresh_state o) ops in
  let ws := spec_prog_writes (c_enc c) (panel_of o) (o_orient o) ops in
  let '(l2, _, r) := par_run true pmd 16 last t in
  r = Ok tt /\
  let K := ctl_run K0 (decode_items 1 None [] (wire_par lst l2)) in
  (forall x y, mem K x y = mem (ctl_run K0 t) x y /\ mem K x y = last_write ws x y None) /\
  k_flags K = [].
Proof. exact init_then_program_par_16. Qed.

(* ---------------------------------------------------------------- 5. the whole session at pin level *)

(* Builder::init's own traffic AND the program through the SPI transport and the decoder, the
   controller starting at power-on. The transport's head condition (DC high, or the first event is a
   command) becomes: DC initially high, or no reset pin (the session then starts with SoftReset) *)
Theorem C01E_session_spi :
  forall (md : mode) (m : model_def) (k : kind) (o : opts) (rst : bool) (c : ctx) (ops : list pop)
         (n : Z) (buf : list Z) (dc0 : bool),
  In m gen_models -> supported (m_prog m) k = true ->
  u16 (o_w o) -> u16 (o_h o) -> u16 (o_ox o) -> u16 (o_oy o) ->
  init_check md (m_fw m) (m_fh m) (o_w o) (o_h o) (o_ox o) (o_oy o) = Ok tt ->
  c_md c = md -> c_fw c = m_fw m -> c_fh c = m_fh m ->
  c_rowcap c = Z.to_nat gen_MAX_ROW_SIZE -> c_blockcap c = Z.to_nat gen_MAX_BLOCK_SIZE ->
  prog_wf o ops ->
  (forall col, Z.of_nat (List.length (c_enc c col)) = n) ->
  1 <= n -> n <= Z.of_nat (List.length buf) -> Z.of_nat (List.length buf) / n < 2 ^ 32 ->
  (dc0 = true \/ rst = false) ->
  let ir := builder_init md (m_fw m) (m_fh m) rst o (run_init k (m_color m) o (m_prog m)) in
  let t := fst ir ++ exec_trace c (fresh_state o) ops in
  let ws := spec_prog_writes (c_enc c) (panel_of o) (o_orient o) ops in
  let '(l2, _, r) := spi_run true n buf t in
  r = Ok tt /\
  let K := ctl_run (power_on (m_fw m) (m_fh m)) (decode_items (Z.to_nat n) None [] (wire_spi dc0 l2)) in
  (forall x y, mem K x y = last_write ws x y None) /\
  k_flags K = [].
Proof. exact init_and_program_spi. Qed.

(* ... and through a parallel bus of any width w >= 8 (8 and 16 in the crate), n >= 1 bus words per
   pixel. That every command of every init sequence has a one-byte opcode and one-byte parameters is
   decided on the regenerated model programs (EndToEndP.init_bytes_gen) *)
Theorem C01E_session_par :
  forall (md : mode) (m : model_def) (k : kind) (o : opts) (rst : bool) (c : ctx) (ops : list pop)
         (w : nat) (pmd : mode) (n : nat) (last : option Z) (lst : lines),
  In m gen_models -> supported (m_prog m) k = true ->
  u16 (o_w o) -> u16 (o_h o) -> u16 (o_ox o) -> u16 (o_oy o) ->
  init_check md (m_fw m) (m_fh m) (o_w o) (o_h o) (o_ox o) (o_oy o) = Ok tt ->
  c_md c = md -> c_fw c = m_fw m -> c_fh c = m_fh m ->
  c_rowcap c = Z.to_nat gen_MAX_ROW_SIZE -> c_blockcap c = Z.to_nat gen_MAX_BLOCK_SIZE ->
  prog_wf o ops ->
  (8 <= w)%nat -> (1 <= n)%nat ->
  (forall col, List.length (c_enc c col) = n) ->
  (forall col, Forall (fun x => 0 <= x < 2 ^ Z.of_nat w) (c_enc c col)) ->
  bus_inv w (last, l_pins lst) ->
  (l_dc lst = true \/ rst = false) ->
  let ir := builder_init md (m_fw m) (m_fh m) rst o (run_init k (m_color m) o (m_prog m)) in
  let t := fst ir ++ exec_trace c (fresh_state o) ops in
  let ws := spec_prog_writes (c_enc c) (panel_of o) (o_orient o) ops in
  let '(l2, _, r) := par_run true pmd w last t in
  r = Ok tt /\
  let K := ctl_run (power_on (m_fw m) (m_fh m)) (decode_items n None [] (wire_par lst l2)) in
  (forall x y, mem K x y = last_write ws x y None) /\
  k_flags K = [].
Proof. exact init_and_program_par. Qed.

(* ---------------------------------------------------------------- non-vacuity *)
(* the 13th built-in model (240 x 320, 16-bit colour) over SPI with a reset pin, release profile;
   a 240 x 280 panel at offset (0, 20), BGR, inverted, rotated 90 degrees and mirrored (logical size
   280 x 240); clear, one pixel, one fill that is clipped at the bottom-right corner *)
Definition ex_dflt : model_def :=
  {| m_name := EmptyString; m_fw := 0; m_fh := 0; m_color := CRgb565; m_prog := [] |}.
Definition ex_m : model_def := nth 12 gen_models ex_dflt.
Definition ex_o : opts :=
  {| o_bgr := true; o_orient := {| rotn := D90; mir := true |}; o_inv := true; o_btt := false; o_rtl := false;
     o_w := 240; o_h := 280; o_ox := 0; o_oy := 20 |}.
Definition ex_c : ctx :=
  {| c_md := Release; c_batch := true; c_fw := m_fw ex_m; c_fh := m_fh ex_m;
     c_enc := fun v => [v / 256; v mod 256];
     c_rowcap := Z.to_nat gen_MAX_ROW_SIZE; c_blockcap := Z.to_nat gen_MAX_BLOCK_SIZE |}.
Definition ex_ops : list pop :=
  [PClear 0x1234; PSetPixel 3 4 0xF800; PFillSolid {| rx := 270; ry := 230; rw := 50; rh := 50 |} 0x001F].

(* every hypothesis of the theorems above holds for it *)
Example C01E_ex_hyps :
  In ex_m gen_models /\
  (m_fw ex_m, m_fh ex_m, m_color ex_m) = (240, 320, CRgb565) /\
  supported (m_prog ex_m) Serial4Line = true /\
  u16 (o_w ex_o) /\ u16 (o_h ex_o) /\ u16 (o_ox ex_o) /\ u16 (o_oy ex_o) /\
  init_check Release (m_fw ex_m) (m_fh ex_m) (o_w ex_o) (o_h ex_o) (o_ox ex_o) (o_oy ex_o) = Ok tt /\
  c_md ex_c = Release /\ c_fw ex_c = m_fw ex_m /\ c_fh ex_c = m_fh ex_m /\
  c_rowcap ex_c = Z.to_nat gen_MAX_ROW_SIZE /\ c_blockcap ex_c = Z.to_nat gen_MAX_BLOCK_SIZE /\
  prog_wf ex_o ex_ops /\
  (forall col, Z.of_nat (List.length (c_enc ex_c col)) = 2).
Proof.
  split; [apply nth_In; rewrite gen_models_length; lia|].
  split; [vm_compute; reflexivity|]. split; [vm_compute; reflexivity|].
  split; [unfold u16; cbn [ex_o o_w]; lia|]. split; [unfold u16; cbn [ex_o o_h]; lia|].
  split; [unfold u16; cbn [ex_o o_ox]; lia|]. split; [unfold u16; cbn [ex_o o_oy]; lia|].
  split; [vm_compute; reflexivity|].
  split; [reflexivity|]. split; [reflexivity|]. split; [reflexivity|]. split; [reflexivity|].
  split; [reflexivity|].
  split; [|intros col; reflexivity].
  unfold ex_ops, prog_wf, op_wf, rect_valid.
  cbn [lsize ex_o o_orient rotn is_horizontal o_w o_h rx ry rw rh].
  change (2 ^ 31) with 2147483648. repeat (split; try lia).
Qed.

(* the same case, evaluated by the kernel from power-on: 14 events of init (3 of them the reset
   pulse), MADCTL = MV | BGR, 16-bit pixel format; then the write history is the specification list,
   no flag, all calls Ok; panel-area cells hold the last write, cells outside the panel area None *)
Example C01E_ex_run :
  let ir := builder_init Release (m_fw ex_m) (m_fh ex_m) true ex_o
                         (run_init Serial4Line (m_color ex_m) ex_o (m_prog ex_m)) in
  let K0 := ctl_run (power_on (m_fw ex_m) (m_fh ex_m)) (fst ir) in
  let K := ctl_run K0 (exec_trace ex_c (fresh_state ex_o) ex_ops) in
  snd ir = Ok (fresh_state ex_o) /\ List.length (fst ir) = 14%nat /\
  k_madctl K0 = 0x28 /\ k_colmod K0 = Some 0x55 /\ k_asleep K0 = false /\ k_on K0 = true /\
  exec_all_ok ex_c (fresh_state ex_o) ex_ops = true /\
  writes K = spec_prog_writes (c_enc ex_c) (panel_of ex_o) (o_orient ex_o) ex_ops /\
  writes K = [WRect 0 20 239 299 [0x12; 0x34]; WPx 4 23 [0xF8; 0x00]; WRect 230 290 239 299 [0x00; 0x1F]] /\
  k_flags K = [] /\
  mem K 0 20 = Some [0x12; 0x34] /\ mem K 4 23 = Some [0xF8; 0x00] /\ mem K 239 299 = Some [0x00; 0x1F] /\
  mem K 0 19 = None /\ mem K 239 300 = None.
Proof. vm_compute. repeat split; reflexivity. Qed.

(* ... and the main theorem applies to it *)
Example C01E_ex_applied :
  let ir := builder_init Release (m_fw ex_m) (m_fh ex_m) true ex_o
                         (run_init Serial4Line (m_color ex_m) ex_o (m_prog ex_m)) in
  let K := ctl_run (ctl_run (power_on (m_fw ex_m) (m_fh ex_m)) (fst ir))
                   (exec_trace ex_c (fresh_state ex_o) ex_ops) in
  writes K = spec_prog_writes (c_enc ex_c) (panel_of ex_o) (o_orient ex_o) ex_ops /\ k_flags K = [].
Proof.
  destruct C01E_ex_hyps as (Hm & _ & Hs & Hw & Hh & Hox & Hoy & Hc & Emd & Efw & Efh & Er & Eb & Hwf & _).
  pose proof (C01E_init_then_program Release ex_m Serial4Line ex_o true ex_c ex_ops
                Hm Hs Hw Hh Hox Hoy Hc Emd Efw Efh Er Eb Hwf) as H.
  cbv zeta in H. destruct H as (_ & _ & HW & HF & _).
  cbv zeta. split; [exact HW | exact HF].
Qed.

(* a session with sleep / wake and out-of-range arguments, from the same init: the flag follows *)
Example C13E_ex_run :
  let ir := builder_init Release (m_fw ex_m) (m_fh ex_m) true ex_o
                         (run_init Serial4Line (m_color ex_m) ex_o (m_prog ex_m)) in
  let K0 := ctl_run (power_on (m_fw ex_m) (m_fh ex_m)) (fst ir) in
  let ops := [PSleep; PSetPixel 5000 5000 1; PSleep; PWake; PScrollOffset 3; PSleep] in
  let K := ctl_run K0 (exec_trace ex_c (fresh_state ex_o) ops) in
  d_sleeping (snd (exec ex_c (fresh_state ex_o) ops)) = true /\ k_asleep K = true /\
  last_sleep_op ops false = true /\ existsb (fun a => match a with SleepSpacing => true | _ => false end) (k_flags K) = false.
Proof. vm_compute. repeat split; reflexivity. Qed.

Print Assumptions C01E_ctl_run_dims.
Print Assumptions C01E_init_establishes_invariants.
Print Assumptions C01E_init_then_program.
Print Assumptions C13E_init_then_history.
Print Assumptions C01E_pin_level_spi.
Print Assumptions C01E_pin_level_par_8.
Print Assumptions C01E_pin_level_par_16.
Print Assumptions C01E_session_spi.
Print Assumptions C01E_session_par.
Print Assumptions C01E_ex_hyps.
Print Assumptions C01E_ex_run.
Print Assumptions C01E_ex_applied.
Print Assumptions C13E_ex_run.
