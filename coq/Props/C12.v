(* C12 — a failing pin or bus operation is reported, stops the call, wedges nothing. Statements only.

   "If any single pin or bus operation fails during any driver call, the call returns that error wrapped
   in the variant naming its source, without panicking and without issuing any further pin or bus
   operation in that call. Once the fault has cleared, the same display object still draws correctly."

   Fault model: Model/Display.v `step_faulty` (L1: the k-th fallible Interface call of a Display call
   fails) and Model/Fault.v `cut_fault` over `trans_events` (L2: the k-th fallible pin / SPI operation of
   the call fails; the transport state left behind is the cache annotation before the failing op, cleared
   if a data pin failed inside set_value). The model's agreement with the Rust crate on faulted runs is
   the correspondence check Corr/C12.v; here: what the fault model guarantees, for every call, every k,
   both transports. Proofs in Proofs/FaultP.v. *)
Require Import Model.Base Model.Orient Model.Dcs Model.Events Model.Builder Model.Rect Model.Batch
               Model.Display Model.InitLang Model.Spi Model.Parallel Model.Fault.
Require Import Oracle.Spec Oracle.Controller Oracle.DrawSpec Gen.Models.
Require Import Proofs.ParallelP Proofs.SpiP Proofs.WindowP Proofs.DrawP Proofs.OrientStateP Proofs.ProgramP
               Proofs.FaultP.
Open Scope list_scope.
Open Scope Z_scope.

(* ------------------------------------------------------------------------------------------------ *)
(* 1. L1: the k-th Interface call of any Display call fails                                          *)
(* ------------------------------------------------------------------------------------------------ *)

(* With (t, r, st') the fault-free behaviour of the call: if the call makes at most k fallible
   Interface calls nothing changes. Otherwise the logged events are a prefix of t whose LAST element is
   the failing (fallible) call and which contains exactly k+1 fallible calls — nothing is issued after
   the failure —, the result is the interface error (never a panic), and the driver state (orientation,
   size, cached MADCTL, sleep flag) is the state before the call. *)
Theorem C12_step_faulty_spec : forall (c : ctx) (st : dstate) (op : pop) (k : nat)
                                      (t : list event) (r : res) (st' : dstate),
  step c st op = (t, r, st') ->
  (cut_at k t = None ->
     step_faulty c k st op = (t, r, st') /\ (List.length (filter fallible t) <= k)%nat) /\
  (cut_at k t <> None ->
     exists t', cut_at k t = Some t' /\
       step_faulty c k st op = (t', RErr (EIf IfRec), st) /\
       (exists rest, t = t' ++ rest) /\
       (exists pre e, t' = pre ++ [e] /\ fallible e = true) /\
       List.length (filter fallible t') = S k /\
       snd (fst (step_faulty c k st op)) <> RPanic /\
       snd (step_faulty c k st op) = st).
Proof. exact step_faulty_spec. Qed.

(* the fault fires exactly when the call has more than k fallible Interface calls *)
Theorem C12_cut_at_none_iff : forall (t : list event) (k : nat),
  cut_at k t = None <-> (List.length (filter fallible t) <= k)%nat.
Proof. exact cut_at_none_iff. Qed.

(* ------------------------------------------------------------------------------------------------ *)
(* 2. L2: the k-th pin / bus operation of a call fails                                               *)
(* ------------------------------------------------------------------------------------------------ *)

(* the pin-level log of a faulted call is a prefix of the fault-free log, ends with the failing
   operation, and contains exactly k+1 fallible operations; no fault if the call has at most k *)
Theorem C12_cut_fault_spec : forall (k : Z) (ts0 : tstate) (an : list (l2op * tstate)),
  (forall l failing tsf, cut_fault k ts0 an = Some (l, failing, tsf) ->
     0 <= k /\
     (exists rest, map fst an = l ++ rest) /\
     last l (OWr true) = failing /\
     fallible2 failing = true /\
     List.length (filter fallible2 l) = S (Z.to_nat k)) /\
  (cut_fault k ts0 an = None -> 0 <= k ->
     (List.length (filter fallible2 (map fst an)) <= Z.to_nat k)%nat).
Proof. exact cut_fault_spec. Qed.

(* the variant names the source: SpiError::{Dc, Spi}; ParallelError::{Bus, Dc, Wr} *)
Theorem C12_tag_of_names_source :
  (forall n buf b, tag_of (ODc b) (TSpi n buf) = SpiDc) /\
  (forall n buf o, (forall b, o <> ODc b) -> tag_of o (TSpi n buf) = SpiSpi) /\
  (forall w last i b, tag_of (OPin i b) (TPar w last) = ParBus) /\
  (forall w last b, tag_of (ODc b) (TPar w last) = ParDc) /\
  (forall w last b, tag_of (OWr b) (TPar w last) = ParWr).
Proof. exact tag_of_names_source. Qed.

(* ------------------------------------------------------------------------------------------------ *)
(* 3. the fault model's annotations are tied to the proved transport model                           *)
(* ------------------------------------------------------------------------------------------------ *)

(* for every Interface call (any words): the annotated operations and the final cache are exactly what
   Model/Parallel.v `par_event` (the model C07 is proved about) produces, and that call completes *)
Theorem C12_annot_event_ops : forall (md : mode) (w : nat) (last : option Z) (e : event),
  par_event true md w last e =
  (map fst (fst (annot_event w last e)), snd (annot_event w last e), Ok tt).
Proof. exact annot_event_ops. Qed.

Theorem C12_annot_event_ops_ok : forall (md : mode) (w : nat) (last : option Z) (e : event)
                                        (ops : list l2op) (l' : option Z),
  par_event true md w last e = (ops, l', Ok tt) ->
  map fst (fst (annot_event w last e)) = ops /\ snd (annot_event w last e) = l'.
Proof. exact annot_event_ops_ok. Qed.

(* hence the `sane` flag of trans_events is never false on the parallel transport, for whole calls *)
Theorem C12_trans_events_par : forall (md : mode) (w : nat) (t : list event) (last : option Z),
  trans_events md (TPar w last) t =
  (map (lift w) (fst (annot_events w last t)), TPar w (snd (annot_events w last t)), Ok tt, true).
Proof. exact trans_events_par. Qed.

(* every annotation is the cache on entry, None, or Some x for a word x of this call ... *)
Theorem C12_annot_cache_values : forall (w : nat) (last : option Z) (e : event),
  Forall (fun oc => snd oc = last \/ snd oc = None \/ exists x, In x (event_words e) /\ snd oc = Some x)
         (fst (annot_event w last e)) /\
  (snd (annot_event w last e) = last \/ snd (annot_event w last e) = None \/
   exists x, In x (event_words e) /\ snd (annot_event w last e) = Some x).
Proof. exact annot_cache_values. Qed.

(* ... and it is sound: after every operation of the call the annotated cache, if Some x, is the value
   the data pins physically show (x = the word of the last completed set_value; no pin moved since) *)
Theorem C12_annot_cache_sound : forall (w : nat) (last : option Z) (e : event) (st : lines),
  (8 <= w)%nat -> words_in_range w e -> bus_inv w (last, l_pins st) ->
  ann_inv w st (fst (annot_event w last e)) /\
  bus_inv w (snd (annot_event w last e), l_pins (lines_after st (map fst (fst (annot_event w last e))))).
Proof. exact annot_cache_sound. Qed.

(* ------------------------------------------------------------------------------------------------ *)
(* 4. recovery of the bus                                                                            *)
(* ------------------------------------------------------------------------------------------------ *)

(* whichever operation of an Interface call fails, and for BOTH physical effects of the failed write
   (it reached the pin / it did not), the cache left behind satisfies the bus invariant *)
Theorem C12_fault_keeps_bus_inv : forall (md : mode) (w : nat) (last : option Z) (st : lines) (e : event) (k : Z)
                                         (l : list l2op) (failing : l2op) (lastf : option Z),
  (8 <= w)%nat -> words_in_range w e -> bus_inv w (last, l_pins st) ->
  cut_fault k (TPar w last) (fst (fst (fst (trans_event md (TPar w last) e)))) = Some (l, failing, TPar w lastf) ->
  bus_inv w (lastf, l_pins (lines_after st l)) /\
  bus_inv w (lastf, l_pins (lines_after st (removelast l))).
Proof. exact fault_keeps_bus_inv. Qed.

(* the same for a whole driver call (all its Interface calls), the unit `cut_fault` is applied to *)
Theorem C12_fault_keeps_bus_inv_call : forall (md : mode) (w : nat) (last : option Z) (st : lines) (t : list event) (k : Z)
                                              (l : list l2op) (failing : l2op) (lastf : option Z),
  (8 <= w)%nat -> Forall (words_in_range w) t -> bus_inv w (last, l_pins st) ->
  cut_fault k (TPar w last) (fst (fst (fst (trans_events md (TPar w last) t)))) = Some (l, failing, TPar w lastf) ->
  bus_inv w (lastf, l_pins (lines_after st l)) /\
  bus_inv w (lastf, l_pins (lines_after st (removelast l))).
Proof. exact fault_keeps_bus_inv_call. Qed.

(* consequently every later fault-free trace that starts with a command is latched word for word *)
Theorem C12_after_fault_still_latches : forall (md : mode) (w : nat) (last : option Z) (st : lines) (t : list event) (k : Z)
                                               (l : list l2op) (failing : l2op) (lastf : option Z)
                                               (eff : bool) (t2 : list event),
  (8 <= w)%nat -> Forall (words_in_range w) t -> bus_inv w (last, l_pins st) ->
  cut_fault k (TPar w last) (fst (fst (fst (trans_events md (TPar w last) t)))) = Some (l, failing, TPar w lastf) ->
  Forall (words_in_range w) t2 -> (exists op args t', t2 = ECmd op args :: t') ->
  let st' := lines_after st (if eff then l else removelast l) in
  let '(ops', l', r) := par_run true md w lastf t2 in
  r = Ok tt /\ sample_par st' ops' = latch_of t2 /\ bus_inv w (l', l_pins (lines_after st' ops')).
Proof. exact after_fault_still_latches. Qed.

Theorem C12_after_fault_still_latches_8 : forall (md : mode) (last : option Z) (st : lines) (t : list event) (k : Z)
    (l : list l2op) (failing : l2op) (lastf : option Z) (eff : bool) (t2 : list event),
  Forall (words_in_range 8) t -> bus_inv 8 (last, l_pins st) ->
  cut_fault k (TPar 8 last) (fst (fst (fst (trans_events md (TPar 8 last) t)))) = Some (l, failing, TPar 8 lastf) ->
  Forall (words_in_range 8) t2 -> (exists op args t', t2 = ECmd op args :: t') ->
  let st' := lines_after st (if eff then l else removelast l) in
  let '(ops', l', r) := par_run true md 8 lastf t2 in
  r = Ok tt /\ sample_par st' ops' = latch_of t2 /\ bus_inv 8 (l', l_pins (lines_after st' ops')).
Proof. exact after_fault_still_latches_8. Qed.

Theorem C12_after_fault_still_latches_16 : forall (md : mode) (last : option Z) (st : lines) (t : list event) (k : Z)
    (l : list l2op) (failing : l2op) (lastf : option Z) (eff : bool) (t2 : list event),
  Forall (words_in_range 16) t -> bus_inv 16 (last, l_pins st) ->
  cut_fault k (TPar 16 last) (fst (fst (fst (trans_events md (TPar 16 last) t)))) = Some (l, failing, TPar 16 lastf) ->
  Forall (words_in_range 16) t2 -> (exists op args t', t2 = ECmd op args :: t') ->
  let st' := lines_after st (if eff then l else removelast l) in
  let '(ops', l', r) := par_run true md 16 lastf t2 in
  r = Ok tt /\ sample_par st' ops' = latch_of t2 /\ bus_inv 16 (l', l_pins (lines_after st' ops')).
Proof. exact after_fault_still_latches_16. Qed.

(* SPI: the only transport state is the staging buffer, and wire transparency holds for every content *)
Theorem C12_spi_after_fault : forall (n : Z) (buf buf' : list Z) (t : list event) (dc0 : bool),
  List.length buf' = List.length buf ->
  1 <= n -> n <= Z.of_nat (List.length buf) -> Z.of_nat (List.length buf) / n < 2 ^ 32 ->
  Forall (event_pixels_wf n) t ->
  (exists op args t', t = ECmd op args :: t') ->
  let '(ops, b2, r) := spi_run true n buf' t in
  r = Ok tt /\ spi_wire dc0 ops = wire_of t /\ List.length b2 = List.length buf.
Proof. exact spi_after_fault. Qed.

Theorem C12_spi_fault_recovers : forall (md : mode) (n : Z) (buf : list Z) (t : list event) (k : Z)
                                        (l : list l2op) (failing : l2op) (tsf : tstate)
                                        (t2 : list event) (dc0 : bool),
  1 <= n -> n <= Z.of_nat (List.length buf) -> Z.of_nat (List.length buf) / n < 2 ^ 32 ->
  Forall (event_pixels_wf n) t ->
  cut_fault k (TSpi n buf) (fst (fst (fst (trans_events md (TSpi n buf) t)))) = Some (l, failing, tsf) ->
  Forall (event_pixels_wf n) t2 -> (exists op args t', t2 = ECmd op args :: t') ->
  exists b, tsf = TSpi n b /\ List.length b = List.length buf /\
    let '(ops, b2, r) := spi_run true n b t2 in
    r = Ok tt /\ spi_wire dc0 ops = wire_of t2 /\ List.length b2 = List.length buf.
Proof. exact spi_fault_recovers. Qed.

(* ------------------------------------------------------------------------------------------------ *)
(* 5. recovery of the picture                                                                        *)
(* ------------------------------------------------------------------------------------------------ *)

(* the driver state is untouched by faulted calls (item 1), so its hypotheses persist; a fault-free
   clear(col) then shows col on every cell of the configured panel window, touches nothing outside it,
   returns Ok and raises no controller anomaly — in all eight orientations *)
Theorem C12_clear_after_fault : forall (c : ctx) (st : dstate) (k : ctl) (col : Z),
  valid_cfg c (d_opts st) -> madctl_ok st -> ctl_matches c (d_opts st) k ->
  (1 <= c_rowcap c)%nat -> (c_rowcap c <= c_blockcap c)%nat ->
  let o := d_opts st in
  let k' := ctl_run k (fst (fst (step c st (PClear col)))) in
  snd (fst (step c st (PClear col))) = ROk /\
  snd (step c st (PClear col)) = st /\
  (forall x y, o_ox o <= x < o_ox o + o_w o -> o_oy o <= y < o_oy o + o_h o ->
     mem k' x y = Some (c_enc c col)) /\
  (forall x y, ~ (o_ox o <= x < o_ox o + o_w o /\ o_oy o <= y < o_oy o + o_h o) ->
     mem k' x y = mem k x y) /\
  k_flags k' = k_flags k.
Proof. exact clear_after_fault. Qed.

(* ------------------------------------------------------------------------------------------------ *)
(* 6. initialisation                                                                                 *)
(* ------------------------------------------------------------------------------------------------ *)

(* every built-in Model::init propagates every fallible call with `?`: the trace of a faulted init is
   the fault-free trace cut after the failing call (items 1 / 2) *)
Theorem C12_init_programs_propagate : forall m : model_def, In m gen_models -> propagates (m_prog m) = true.
Proof. exact init_programs_propagate. Qed.

(* ------------------------------------------------------------------------------------------------ *)
(* non-vacuity                                                                                       *)
(* ------------------------------------------------------------------------------------------------ *)
Definition c12_ctx : ctx :=
  {| c_md := Debug; c_batch := false; c_fw := 240; c_fh := 320;
     c_enc := fun col => [col / 256; col mod 256]; c_rowcap := 240; c_blockcap := 240 |}.
Definition c12_opts : opts :=
  {| o_bgr := false; o_orient := orient_new; o_inv := false; o_btt := false; o_rtl := false;
     o_w := 240; o_h := 320; o_ox := 0; o_oy := 0 |}.
Definition c12_st : dstate := {| d_opts := c12_opts; d_madctl := madctl_of_opts c12_opts; d_sleeping := false |}.

(* set_pixel(1, 2, 0xF800) on an 8-bit parallel bus: CASET, RASET, RAMWR, one pixel = 69 fallible ops *)
Definition c12_call : list event := fst (fst (step c12_ctx c12_st (PSetPixel 1 2 63488))).
Definition c12_an : list (l2op * tstate) := fst (fst (fst (trans_events Debug (TPar 8 None) c12_call))).

Example C12_ex_call :
  c12_call = [ECmd 42 [0; 1; 0; 1]; ECmd 43 [0; 2; 0; 2]; ECmd 44 []; EPixels [[248; 0]]] /\
  List.length (filter fallible2 (map fst c12_an)) = 69%nat /\
  snd (trans_events Debug (TPar 8 None) c12_call) = true.
Proof. vm_compute. repeat split. Qed.

(* k = 0: the very first operation (DC low) fails: ParallelError::Dc, cache untouched *)
Example C12_ex_cut_0 :
  cut_fault 0 (TPar 8 None) c12_an = Some ([ODc false], ODc false, TPar 8 None) /\
  tag_of (ODc false) (TPar 8 None) = ParDc.
Proof. vm_compute. split; reflexivity. Qed.

(* k = 5: the fourth data pin of the first set_value fails: ParallelError::Bus, cache cleared *)
Example C12_ex_cut_5 :
  cut_fault 5 (TPar 8 None) c12_an =
  Some ([ODc false; OWr false; OPin 0 false; OPin 1 true; OPin 2 false; OPin 3 true], OPin 3 true, TPar 8 None) /\
  tag_of (OPin 3 true) (TPar 8 None) = ParBus.
Proof. vm_compute. split; reflexivity. Qed.

(* k = 11: DC high after the opcode strobe fails: ParallelError::Dc, cache = the completed word 0x2A *)
Example C12_ex_cut_11 :
  cut_fault 11 (TPar 8 None) c12_an =
  Some ([ODc false; OWr false; OPin 0 false; OPin 1 true; OPin 2 false; OPin 3 true; OPin 4 false;
         OPin 5 true; OPin 6 false; OPin 7 false; OWr true; ODc true], ODc true, TPar 8 (Some 42)) /\
  tag_of (ODc true) (TPar 8 None) = ParDc.
Proof. vm_compute. split; reflexivity. Qed.

(* k = 10: the write strobe fails: ParallelError::Wr *)
Example C12_ex_cut_10 :
  match cut_fault 10 (TPar 8 None) c12_an with
  | Some (l, failing, tsf) => failing = OWr true /\ tag_of failing (TPar 8 None) = ParWr /\ tsf = TPar 8 (Some 42)
  | None => False
  end.
Proof. vm_compute. repeat split. Qed.

(* k = 69: no fault *)
Example C12_ex_cut_69 : cut_fault 69 (TPar 8 None) c12_an = None /\ cut_fault 68 (TPar 8 None) c12_an <> None.
Proof. vm_compute. split; [reflexivity | discriminate]. Qed.

(* after the half-written word of k = 5 (pins 0..3 show 0xA, cache empty), whether or not the failing
   pin write took effect, the same call repeated is latched exactly *)
Example C12_ex_recover_5 : forall eff : bool,
  let st0 := {| l_pins := repeat true 8; l_dc := true; l_wr := true |} in
  let l := [ODc false; OWr false; OPin 0 false; OPin 1 true; OPin 2 false; OPin 3 true] in
  let st' := lines_after st0 (if eff then l else removelast l) in
  sample_par st' (fst (fst (par_run true Debug 8 None c12_call))) = latch_of c12_call /\
  latch_of c12_call = [(false, 42); (true, 0); (true, 1); (true, 0); (true, 1);
                       (false, 43); (true, 0); (true, 2); (true, 0); (true, 2);
                       (false, 44); (true, 248); (true, 0)].
Proof. intros [|]; vm_compute; split; reflexivity. Qed.

(* L1: a faulted set_orientation returns the interface error and leaves orientation and MADCTL alone;
   the fault-free call updates both *)
Example C12_ex_set_orient_faulted :
  step_faulty c12_ctx 0 c12_st (PSetOrient {| rotn := D90; mir := false |}) =
    ([ECmd 54 [96]], RErr (EIf IfRec), c12_st) /\
  step c12_ctx c12_st (PSetOrient {| rotn := D90; mir := false |}) =
    ([ECmd 54 [96]], ROk,
     {| d_opts := set_orient c12_opts {| rotn := D90; mir := false |}; d_madctl := 96; d_sleeping := false |}).
Proof. vm_compute. split; reflexivity. Qed.

(* L1: sleep faulted at its only Interface call: no delay is issued afterwards, the flag stays clear *)
Example C12_ex_sleep_faulted :
  step_faulty c12_ctx 0 c12_st PSleep = ([ECmd 16 []], RErr (EIf IfRec), c12_st) /\
  fst (fst (step c12_ctx c12_st PSleep)) = [ECmd 16 []; EDelay 120000000] /\
  d_sleeping (snd (step c12_ctx c12_st PSleep)) = true.
Proof. vm_compute. repeat split. Qed.

(* the hypotheses of C12_clear_after_fault are satisfiable *)
Example C12_ex_clear_hyps :
  valid_cfg c12_ctx (d_opts c12_st) /\ madctl_ok c12_st /\
  ctl_matches c12_ctx (d_opts c12_st) (ctl_for c12_ctx c12_opts) /\
  (1 <= c_rowcap c12_ctx)%nat /\ (c_rowcap c12_ctx <= c_blockcap c12_ctx)%nat.
Proof.
  split; [unfold valid_cfg; cbn; lia|]. split; [reflexivity|].
  split; [apply ctl_for_matches|]. cbn. lia.
Qed.
