(* C10 — after set_orientation the display behaves as if built with that orientation. Statements only;
   proofs in Proofs/OrientStateP.v. Model of the tree after the fix: commit for F1 (set_orientation
   stores the new orientation, after the controller accepted it). *)
Require Import Model.Base Model.Orient Model.Dcs Model.Events Model.Builder Model.Rect Model.Batch Model.Display.
Require Import Oracle.Controller Proofs.DcsP Proofs.OrientStateP.

(* Builder::init leaves exactly `fresh_state o` when Model::init returns SetAddressMode::from(options)
   (which every generated built-in model does: C11) *)
Theorem C10_init_state : forall md FW FH rst o t st,
  builder_init md FW FH rst o (t, Ok (madctl_of_opts o)) = (reset_events rst ++ t, Ok st) -> st = fresh_state o.
Proof. exact builder_init_state. Qed.

(* one call: exactly one command 0x36 whose parameter keeps every bit but the three orientation bits;
   options and cached MADCTL are updated, the sleep flag is not touched *)
Theorem C10_step : forall c st x,
  step c st (PSetOrient x) =
  ([ECmd 0x36 [with_orientation (d_madctl st) x]], ROk,
   {| d_opts := set_orient (d_opts st) x; d_madctl := with_orientation (d_madctl st) x; d_sleeping := d_sleeping st |}).
Proof. exact step_set_orient. Qed.

(* colour-order and refresh-order bits are preserved across the change: the new byte is the encoding of
   the same options with only the orientation replaced *)
Theorem C10_bits_preserved : forall o x,
  with_orientation (madctl_of_opts o) x = madctl_of_opts (set_orient o x).
Proof. exact with_orientation_of_opts. Qed.

(* any finite sequence of orientations applied to a display built with any options: every call returns
   Ok and sends the encoding for that orientation; afterwards the driver state IS the state of a display
   freshly built with the last orientation and otherwise identical options *)
Theorem C10_sequence : forall c os st, madctl_ok st ->
  let o := d_opts st in
  let lasto := last os (o_orient o) in
  exec c st (map PSetOrient os) =
  (map (fun x => ([ECmd 0x36 [madctl_of_opts (set_orient o x)]], ROk)) os,
   match os with
   | [] => st
   | _ => {| d_opts := set_orient o lasto; d_madctl := madctl_of_opts (set_orient o lasto); d_sleeping := d_sleeping st |}
   end).
Proof. exact exec_orients. Qed.

Theorem C10_state_is_fresh : forall c os o, os <> [] ->
  snd (exec c (fresh_state o) (map PSetOrient os)) = fresh_state (set_orient o (last os (o_orient o))).
Proof. exact exec_orients_fresh. Qed.

(* reported orientation, reported size (hence bounding box) and cached address mode of that state *)
Theorem C10_reports : forall o x,
  o_orient (d_opts (fresh_state (set_orient o x))) = x /\
  lsize (d_opts (fresh_state (set_orient o x))) = (if is_horizontal (rotn x) then (o_w o, o_h o) else (o_h o, o_w o)) /\
  d_madctl (fresh_state (set_orient o x)) = madctl_new (o_bgr o) x (o_btt o) (o_rtl o).
Proof. exact fresh_state_reports. Qed.

(* the address mode held by the controller is the cached one *)
Theorem C10_controller : forall c os st k, madctl_ok st -> k_page k = false -> os <> [] ->
  let k' := ctl_run k (exec_trace c st (map PSetOrient os)) in
  k_madctl k' = d_madctl (snd (exec c st (map PSetOrient os))) /\ k_page k' = false.
Proof. exact ctl_after_orients. Qed.

(* ... therefore ANY subsequent program (drawing in and out of bounds, scrolling, sleep, ...) produces the
   same results, the same bus traffic and the same final state on both displays *)
Theorem C10_behaviour : forall c os o p, os <> [] ->
  exec c (snd (exec c (fresh_state o) (map PSetOrient os))) p =
  exec c (fresh_state (set_orient o (last os (o_orient o)))) p.
Proof. exact exec_after_orients. Qed.

Example C10_ex :
  let o := {| o_bgr := true; o_orient := {| rotn := D0; mir := false |}; o_inv := false; o_btt := true; o_rtl := false;
              o_w := 100; o_h := 50; o_ox := 3; o_oy := 7 |} in
  let c := {| c_md := Debug; c_batch := true; c_fw := 240; c_fh := 320; c_enc := fun v => [v]; c_rowcap := 50; c_blockcap := 100 |} in
  let st := snd (exec c (fresh_state o) [PSetOrient {| rotn := D180; mir := true |}; PSetOrient {| rotn := D90; mir := false |}]) in
  lsize (d_opts st) = (50, 100) /\ d_madctl st = 0x78 /\ madctl_ok (fresh_state o).
Proof. vm_compute. auto. Qed.
