(* statements land with the deep pass; see Proofs *)
Require Import Model.Base.
