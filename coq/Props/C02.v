(* C02 — drawing never leaves the panel window, never panics, never fails; out-of-bounds input is
   discarded. Statements only; proofs in Proofs/ClipP.v, Proofs/DrawP.v, Proofs/ProgramP.v.
   Model of the tree after the fix: commit for F4 (draw_iter discards out-of-bounds pixels). *)
Require Import Model.Base Model.Orient Model.Dcs Model.Events Model.Builder Model.Rect Model.Batch Model.Display.
Require Import Oracle.Spec Oracle.Controller Oracle.DrawSpec.
Require Import Proofs.DcsP Proofs.WindowP Proofs.CtlP Proofs.DrawP Proofs.ClipP Proofs.BatchP Proofs.OrientStateP
               Proofs.ProgramP.
Open Scope Z_scope.

(* Any program of set_pixel(s) (in bounds), draw_iter (ARBITRARY i32 points), fill_contiguous /
   fill_solid (ANY valid Rectangle), clear, set_orientation — `prog_wf`, Proofs/ProgramP.v — on a
   display Builder::init accepts: every call returns Ok (exec_all_ok: each per-call result is ROk; a
   panic would be RPanic, an error RErr), with debug assertions (overflow checks) and without. *)
Theorem C02_no_panic_no_error : forall c ops st,
  valid_cfg c (d_opts st) -> madctl_ok st ->
  (1 <= c_rowcap c)%nat -> (c_rowcap c <= c_blockcap c)%nat -> prog_wf (d_opts st) ops ->
  exec_all_ok (with_mode c Debug) st ops = true /\ exec_all_ok (with_mode c Release) st ops = true /\
  exec_all_ok c st ops = true.
Proof. exact exec_no_panic. Qed.

(* Everything such a program makes the controller write lies inside the configured panel window
   [ox, ox+w) x [oy, oy+h) of the framebuffer; the controller flags no anomaly (in particular no
   CASET / RASET beyond the addressable extent under the current MV, no start > end, no pointer wrap);
   cells outside the window keep whatever they held. *)
Theorem C02_confined : forall c ops st k,
  valid_cfg c (d_opts st) -> madctl_ok st -> ctl_matches c (d_opts st) k ->
  (1 <= c_rowcap c)%nat -> (c_rowcap c <= c_blockcap c)%nat -> prog_wf (d_opts st) ops ->
  let o := d_opts st in
  let k' := ctl_run k (exec_trace c st ops) in
  let ws := spec_prog_writes (c_enc c) (panel_of o) (o_orient o) ops in
  writes k' = writes k ++ ws /\ Forall (wr_inside o) ws /\ k_flags k' = k_flags k /\
  forall x y, ~ (o_ox o <= x < o_ox o + o_w o /\ o_oy o <= y < o_oy o + o_h o) -> mem k' x y = mem k x y.
Proof. exact exec_confined. Qed.

(* draw_iter: pixels outside the logical bounding box are dropped before anything else happens —
   the call is indistinguishable from the call on the filtered list (no hypothesis at all) ... *)
Theorem C02_oob_discarded : forall c st (ps : list pixel),
  step c st (PDrawIter ps) = step c st (PDrawIter (filter (in_bbox (d_opts st)) ps)).
Proof. exact oob_discarded. Qed.

(* ... the specification says the same ... *)
Theorem C02_oob_discarded_spec : forall enc p o (ps : list pixel),
  spec_op_writes enc p o (PDrawIter ps) = spec_op_writes enc p o (PDrawIter (filter (inb p o) ps)).
Proof. exact oob_discarded_spec. Qed.

(* ... with the same test: Rectangle::contains on the bounding box is 0 <= x < lw /\ 0 <= y < lh ... *)
Theorem C02_oob_same_test : forall c st (ps : list pixel),
  valid_cfg c (d_opts st) ->
  filter (in_bbox (d_opts st)) ps = filter (inb (panel_of (d_opts st)) (o_orient (d_opts st))) ps.
Proof. exact oob_filter_spec. Qed.

(* ... and a call with nothing in bounds touches neither the bus nor the state *)
Theorem C02_oob_silent : forall c st (ps : list pixel),
  filter (in_bbox (d_opts st)) ps = [] -> step c st (PDrawIter ps) = ([], ROk, st).
Proof. exact oob_silent. Qed.

(* Rectangles are clipped to the bounding box by plain interval arithmetic (vx0 = max rx 0,
   vx1 = min (rx + rw) lw, ...): one window on the visible part, NOTHING when nothing is visible.
   No u32 operation overflows, the `as u16` casts are identities — any build profile. *)
Theorem C02_rect_clip_solid : forall (c : ctx) (o : opts) (a : rect) (lw lh : Z) (col : Z),
  rect_valid a -> 1 <= lw <= 65535 -> 1 <= lh <= 65535 ->
  lsize o = (lw, lh) ->
  fill_solid c o a col =
  (if visible a lw lh
   then (wdo _ <- set_address_window c o (vx0 a) (vy0 a) (vx1 a lw - 1) (vy1 a lh - 1);
         wdo _ <- wemit (write_command WriteMemoryStart);
         ([ERepeat (c_enc c col) ((vx1 a lw - vx0 a) * (vy1 a lh - vy0 a))], Ok tt))
   else wret tt).
Proof. exact fill_solid_clip. Qed.

Theorem C02_rect_clip_contiguous : forall (c : ctx) (o : opts) (a : rect) (lw lh : Z) (cs : list Z),
  rect_valid a -> 1 <= lw <= 65535 -> 1 <= lh <= 65535 ->
  lsize o = (lw, lh) -> rw a * rh a < 2 ^ 32 ->
  fill_contiguous c o a cs =
  (if visible a lw lh
   then set_pixels c o (vx0 a) (vy0 a) (vx1 a lw - 1) (vy1 a lh - 1) (clip_colors a lw lh cs)
   else wret tt).
Proof. exact fill_contiguous_clip. Qed.

Theorem C02_rect_invisible_silent : forall c st (r : rect),
  valid_cfg c (d_opts st) -> rect_valid r ->
  visible r (fst (lsize (d_opts st))) (snd (lsize (d_opts st))) = false ->
  (forall col, step c st (PFillSolid r col) = ([], ROk, st)) /\
  (rw r * rh r < 2 ^ 32 -> forall cs, step c st (PFillContig r cs) = ([], ROk, st)).
Proof. exact fill_invisible_silent. Qed.

(* the visible window is inside the screen *)
Theorem C02_visible_bounds : forall (a : rect) (lw lh : Z),
  visible a lw lh = true ->
  0 <= vx0 a <= vx1 a lw - 1 /\ vx1 a lw - 1 < lw /\
  0 <= vy0 a <= vy1 a lh - 1 /\ vy1 a lh - 1 < lh.
Proof. exact visible_bounds. Qed.

(* ---- non-vacuity: 100x50 window at (3,7) of a 240x320 controller, rotated 270 degrees; extreme i32
   points, a rectangle as large as embedded-graphics allows, one entirely off-screen ---- *)
Definition ex_c md b := {| c_md := md; c_batch := b; c_fw := 240; c_fh := 320; c_enc := fun v => [v];
                           c_rowcap := 50; c_blockcap := 100 |}.
Definition ex_o := {| o_bgr := true; o_orient := {| rotn := D270; mir := false |}; o_inv := false;
                      o_btt := false; o_rtl := false; o_w := 100; o_h := 50; o_ox := 3; o_oy := 7 |}.
Definition ex_st := fresh_state ex_o.
Definition ex_k := ctl_run (power_on 240 320) [ECmd 0x36 [madctl_of_opts ex_o]].
Definition ex_prog : list pop :=
  [ PDrawIter [(2147483647, 2147483647, 1); (-2147483648, -2147483648, 2); (49, 99, 3); (50, 0, 4); (0, 100, 5);
               (-1, 5, 6); (0, 0, 7)];
    PFillSolid {| rx := -2147483648; ry := -2147483648; rw := 4294967295; rh := 4294967295 |} 8;
    PFillSolid {| rx := 1000; ry := 1000; rw := 5; rh := 5 |} 9;
    PFillContig {| rx := 48; ry := 98; rw := 65536; rh := 65535 |} [1; 2; 3];
    PFillContig {| rx := -70000; ry := 0; rw := 65536; rh := 1 |} [1; 2; 3];
    PClear 0 ].

Example C02_ex_hyps : forall md b,
  valid_cfg (ex_c md b) (d_opts ex_st) /\ madctl_ok ex_st /\ ctl_matches (ex_c md b) (d_opts ex_st) ex_k /\
  (1 <= c_rowcap (ex_c md b))%nat /\ (c_rowcap (ex_c md b) <= c_blockcap (ex_c md b))%nat /\
  prog_wf (d_opts ex_st) ex_prog.
Proof.
  intros md b.
  split; [unfold valid_cfg; cbn; lia|]. split; [reflexivity|].
  split; [unfold ctl_matches; vm_compute; repeat split|].
  split; [cbn; lia|]. split; [cbn; lia|].
  unfold ex_prog, prog_wf, op_wf, rect_valid, i32. cbn [d_opts ex_st fresh_state lsize ex_o
    o_orient rotn is_horizontal o_w o_h set_orient rx ry rw rh length].
  change (2 ^ 31) with 2147483648. change (2 ^ 32) with 4294967296.
  repeat (split; try lia); repeat constructor; try lia.
Qed.

(* evaluated in all four builds: all Ok, no anomaly, the history is the specification's: two
   in-bounds pixels, the full-screen fill, nothing for the off-screen rectangles, the two colours of the
   clipped stream that fall on screen, the clear *)
Example C02_ex_run : forall md b,
  exec_all_ok (ex_c md b) ex_st ex_prog = true /\
  k_flags (ctl_run ex_k (exec_trace (ex_c md b) ex_st ex_prog)) = [] /\
  writes (ctl_run ex_k (exec_trace (ex_c md b) ex_st ex_prog)) =
  spec_prog_writes (fun v => [v]) (panel_of ex_o) (o_orient ex_o) ex_prog.
Proof. intros [] []; vm_compute; repeat split. Qed.

Example C02_ex_spec :
  spec_prog_writes (fun v => [v]) (panel_of ex_o) (o_orient ex_o) ex_prog =
  [ WPx 102 7 [3]; WPx 3 56 [7]; WRect 3 7 102 56 [8];
    WPx 101 8 [1]; WPx 101 7 [2]; WRect 3 7 102 56 [0] ].
Proof. vm_compute. reflexivity. Qed.
