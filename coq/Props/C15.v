(* C15 — orientation operations compose like rectangle symmetries; angle parsing is total. *)
Require Import Model.Base Model.Orient Oracle.Spec Proofs.OrientP.

(* extending an orientation by a rotation shows the image pre-rotated clockwise by that rotation,
   for every panel size, offset, orientation, rotation and point *)
Theorem C15_rotate_geom : forall w h ox oy o r o' x y,
  o_rotate o r = Ok o' ->
  spec_cell w h ox oy o' x y =
  let '(lw, lh) := lsz w h o in
  let '(x', y') := rot_cw lw lh r x y in spec_cell w h ox oy o x' y'.
Proof. exact rotate_geom. Qed.

(* a horizontal flip shows the left-right mirrored image, a vertical flip the top-bottom mirrored one *)
Theorem C15_flip_h_geom : forall w h ox oy o o' x y,
  flip_horizontal o = Ok o' ->
  spec_cell w h ox oy o' x y = spec_cell w h ox oy o (fst (lsz w h o) - 1 - x) y.
Proof. exact flip_horizontal_geom. Qed.
Theorem C15_flip_v_geom : forall w h ox oy o o' x y,
  flip_vertical o = Ok o' ->
  spec_cell w h ox oy o' x y = spec_cell w h ox oy o x (snd (lsz w h o) - 1 - y).
Proof. exact flip_vertical_geom. Qed.

(* every word over the six generators, of any length, evaluates without panic (unreachable!() in
   Rotation::rotate is unreachable) and stays inside the eight orientations *)
Theorem C15_closure : forall w o, exists o', apply_word o w = Ok o'.
Proof. exact apply_word_ok. Qed.

Theorem C15_four_quarter_turns : forall o, apply_word o [ORot D90; ORot D90; ORot D90; ORot D90] = Ok o.
Proof. exact four_quarter_turns. Qed.
Theorem C15_flip_h_twice : forall o, apply_word o [OFlipH; OFlipH] = Ok o.
Proof. exact flip_h_involutive. Qed.
Theorem C15_flip_v_twice : forall o, apply_word o [OFlipV; OFlipV] = Ok o.
Proof. exact flip_v_involutive. Qed.
Theorem C15_flip_h_v_is_half_turn : forall o, apply_word o [OFlipH; OFlipV] = apply_word o [ORot D180].
Proof. exact flip_h_then_v_is_half_turn. Qed.
Theorem C15_rotations_add : forall a b, exists r, rotate_rot a b = Ok r /\ degree r = (degree a + degree b) mod 360.
Proof. exact rotate_rot_ok. Qed.
Theorem C15_rotations_compose : forall o a b,
  exists r, rotate_rot a b = Ok r /\ apply_word o [ORot a; ORot b] = apply_word o [ORot r].
Proof. exact rotations_add. Qed.

(* angle parsing for EVERY integer angle, hence for all 2^32 i32 values: succeeds exactly on
   multiples of 90 and yields the rotation congruent to the angle modulo 360 *)
Theorem C15_angle : forall a,
  (forall r, try_from_degree a = Some r -> degree r = a mod 360 /\ a mod 90 = 0) /\
  (a mod 90 = 0 -> exists r, try_from_degree a = Some r).
Proof. exact try_from_degree_spec. Qed.

(* no overflow: the only arithmetic is rem_euclid 360 (result in [0,360)) and a sum of two degrees <= 540 *)
Theorem C15_no_overflow : (forall a, 0 <= rem_euclid a 360 < 360) /\ (forall a b, 0 <= degree a + degree b <= 540).
Proof. exact (conj rem_euclid_360_in_range rotate_sum_small). Qed.

Example C15_ex : try_from_degree (-2147483648) = None /\ try_from_degree 2147483640 = None
  /\ try_from_degree (-630) = Some D90 /\ try_from_degree 2147483610 = Some D90.
Proof. vm_compute. auto. Qed.
