(* C14 — address-mode byte is the exact MIPI encoding of colour / orientation / refresh order.
   Only statements; proofs in Proofs/DcsP.v (finite sweeps over all 256 bytes by kernel computation,
   lifted with forallb_forall; the sequence theorems by induction over setter lists of any length). *)
Require Import Model.Base Model.Orient Model.Dcs Proofs.DcsP.

(* bit-for-bit encoding, for all 2 x 8 x 4 inputs *)
Theorem C14_encoding : forall bgr o btt rtl,
  let m := madctl_new bgr o btt rtl in
  let mp := from_orient o in
  Z.testbit m 7 = rev_rows mp /\ Z.testbit m 6 = rev_cols mp /\ Z.testbit m 5 = swap mp /\
  Z.testbit m 4 = btt /\ Z.testbit m 3 = bgr /\ Z.testbit m 2 = rtl /\
  Z.testbit m 1 = false /\ Z.testbit m 0 = false /\ 0 <= m < 256.
Proof. exact madctl_encoding. Qed.

(* From<&ModelOptions> gives the same byte as `new` *)
Theorem C14_from_options : forall o,
  madctl_of_opts o = madctl_new (o_bgr o) (o_orient o) (o_btt o) (o_rtl o).
Proof. exact madctl_of_opts_is_new. Qed.

(* each setter touches only its own bits, on every byte *)
Theorem C14_color_only : forall b c, 0 <= b < 256 ->
  Z.land (with_color_order b c) (0xFF - 0x08) = Z.land b (0xFF - 0x08) /\
  Z.testbit (with_color_order b c) 3 = c /\ 0 <= with_color_order b c < 256.
Proof. exact color_only. Qed.
Theorem C14_orientation_only : forall b o, 0 <= b < 256 ->
  Z.land (with_orientation b o) (0xFF - 0xE0) = Z.land b (0xFF - 0xE0) /\
  Z.land (with_orientation b o) 0xE0 = Z.land (with_orientation 0 o) 0xE0 /\
  0 <= with_orientation b o < 256.
Proof. exact orient_only. Qed.
Theorem C14_refresh_only : forall b btt rtl, 0 <= b < 256 ->
  Z.land (with_refresh_order b btt rtl) (0xFF - 0x14) = Z.land b (0xFF - 0x14) /\
  Z.land (with_refresh_order b btt rtl) 0x14 = refresh_value btt rtl /\
  0 <= with_refresh_order b btt rtl < 256.
Proof. exact refresh_only. Qed.

(* any sequence of setters, of any length, applied to any byte: per field the last value given wins,
   untouched fields (incl. bits 1-0) keep their value *)
Theorem C14_sequence : forall l b, 0 <= b < 256 ->
  let r := apply_setters b l in
  0 <= r < 256 /\ f_rest r = f_rest b /\
  f_color r = fold_left (fun x s => upd_color s x) l (f_color b) /\
  f_orient r = fold_left (fun x s => upd_orient s x) l (f_orient b) /\
  f_refresh r = fold_left (fun x s => upd_refresh s x) l (f_refresh b).
Proof. exact setters_sequence. Qed.

(* hence the result does not depend on the order in which the three inputs were applied *)
Theorem C14_order_independent : forall l1 l2 b, 0 <= b < 256 ->
  fold_left (fun x s => upd_color s x) l1 (f_color b) = fold_left (fun x s => upd_color s x) l2 (f_color b) ->
  fold_left (fun x s => upd_orient s x) l1 (f_orient b) = fold_left (fun x s => upd_orient s x) l2 (f_orient b) ->
  fold_left (fun x s => upd_refresh s x) l1 (f_refresh b) = fold_left (fun x s => upd_refresh s x) l2 (f_refresh b) ->
  apply_setters b l1 = apply_setters b l2.
Proof. exact setters_order_independent. Qed.

Example C14_ex : madctl_new true {| rotn := D270; mir := false |} true true = 0xBC
  /\ apply_setters 0 [SColor true; SRefresh true true; SOrient {| rotn := D270; mir := false |}] = 0xBC
  /\ apply_setters 0 [SOrient {| rotn := D270; mir := false |}; SRefresh true true; SColor true] = 0xBC.
Proof. vm_compute. auto. Qed.
