(* C19D — last clause of C19: "... on all display configurations when drawn through a real Display".
   C19 (Props/C19.v) fixes the DrawTarget calls of TestImage::draw on a target of a given size and the
   picture they leave on a clipping target; C01 (Props/C01.v, Proofs/ProgramP.v) says what a program
   of Display drawing calls leaves in the reference controller's memory. Composed here: TestImage drawn
   through a Display of logical size lw x lh — any configuration Builder::init accepts, any of the 8
   orientations, any colour encoder, Debug or Release, `batch` on or off — puts the colour
   `ti_pixel lw lh x y` into the framebuffer cell `cell (panel_of o) (o_orient o) x y` (rotate
   clockwise, mirror, shift by the offset) of every logical pixel and touches nothing outside the panel
   window; so for lw, lh >= 32 the diagnostic properties of C19 hold on the physical panel.
   Statements only; proofs in Proofs/TestImageDisplayP.v.

   `raw_of col tc` is the raw value of RgbColor::{WHITE, BLACK, RED, GREEN, BLUE} in the model's colour
   format and `pop_of_tiop col` turns a TestImage call into the driver operation it performs on a
   Display (fill_contiguous with the materialised colour stream / fill_solid); both are defined in
   Proofs/TestImageDisplayP.v with the same text as in the correspondence layer.

   Hypotheses shared by the statements (those of C01): `valid_cfg` is what Builder::init accepts,
   `madctl_ok` says the driver's stored MADCTL byte matches its options, `ctl_matches` that the
   controller is configured for them (same framebuffer, MY/MX/MV as the orientation needs), and the
   batcher's row buffer is non-empty and not larger than its block buffer. *)
Require Import Model.Base Model.Orient Model.Dcs Model.Events Model.Builder Model.Rect Model.Batch
               Model.Display Model.InitLang Model.Color Model.TestImage.
Require Import Oracle.Spec Oracle.Controller Oracle.DrawSpec.
Require Import Proofs.WindowP Proofs.DrawP Proofs.OrientStateP Proofs.ProgramP Proofs.TestImageDisplayP.
Open Scope list_scope.
Open Scope Z_scope.

(* 1. The calls form a well-formed drawing program: each is a fill_contiguous / fill_solid with a valid
      embedded-graphics rectangle, every fill_contiguous area has fewer than 2^32 points (the largest is
      the bounding box: lw * lh <= 65535^2), and no call changes the orientation. *)
Theorem C19D_ti_prog_wf : forall (c : ctx) (col : colorfmt) (o : opts) (lw lh : Z) (ops : list tiop),
  valid_cfg c o -> lsize o = (lw, lh) -> ti_ops lw lh = Ok ops ->
  prog_wf o (map (pop_of_tiop col) ops).
Proof. exact ti_prog_wf. Qed.

(* 2. Every call returns Ok; the controller's write history grows by exactly the specification entries
      of the calls, in order; the controller flags nothing; the driver state is unchanged. *)
Theorem C19D_ti_through_display_writes : forall (c : ctx) (col : colorfmt) (st : dstate) (k : ctl) (lw lh : Z) (ops : list tiop),
  valid_cfg c (d_opts st) -> madctl_ok st -> ctl_matches c (d_opts st) k ->
  (1 <= c_rowcap c)%nat -> (c_rowcap c <= c_blockcap c)%nat ->
  lsize (d_opts st) = (lw, lh) -> ti_ops lw lh = Ok ops ->
  let o := d_opts st in
  let prog := map (pop_of_tiop col) ops in
  let k' := ctl_run k (exec_trace c st prog) in
  exec_all_ok c st prog = true /\
  writes k' = writes k ++ spec_prog_writes (c_enc c) (panel_of o) (o_orient o) prog /\
  k_flags k' = k_flags k /\
  snd (exec c st prog) = st.
Proof. exact ti_through_display_writes. Qed.

(* 3. The picture in the framebuffer. For every logical pixel the cell it is mapped to holds the
      encoded colour of the TestImage picture at that pixel (where the picture leaves a pixel unpainted
      — possible on targets smaller than 32 x 32 only — the cell keeps its content); no cell outside
      the configured panel window changes. *)
Theorem C19D_ti_through_display_picture : forall (c : ctx) (col : colorfmt) (st : dstate) (k : ctl) (lw lh : Z) (ops : list tiop),
  valid_cfg c (d_opts st) -> madctl_ok st -> ctl_matches c (d_opts st) k ->
  (1 <= c_rowcap c)%nat -> (c_rowcap c <= c_blockcap c)%nat ->
  lsize (d_opts st) = (lw, lh) -> ti_ops lw lh = Ok ops ->
  let o := d_opts st in
  let k' := ctl_run k (exec_trace c st (map (pop_of_tiop col) ops)) in
  (forall x y, 0 <= x < lw -> 0 <= y < lh ->
     let '(cx, cy) := cell (panel_of o) (o_orient o) x y in
     mem k' cx cy = match ti_pixel lw lh x y with
                    | Some tc => Some (c_enc c (raw_of col tc))
                    | None => mem k cx cy
                    end) /\
  (forall cx cy, ~ (o_ox o <= cx < o_ox o + o_w o /\ o_oy o <= cy < o_oy o + o_h o) ->
     mem k' cx cy = mem k cx cy).
Proof. exact ti_through_display_picture. Qed.

(* 3'. The same for either build profile and with or without the `batch` feature, spelled out
       (`at_cell k o x y` is the content of the cell logical point (x, y) is mapped to). *)
Theorem C19D_ti_through_display_any_profile : forall (c : ctx) (col : colorfmt) (st : dstate) (k : ctl) (lw lh : Z)
                                  (ops : list tiop) (m : mode) (b : bool),
  valid_cfg c (d_opts st) -> madctl_ok st -> ctl_matches c (d_opts st) k ->
  (1 <= c_rowcap c)%nat -> (c_rowcap c <= c_blockcap c)%nat ->
  lsize (d_opts st) = (lw, lh) -> ti_ops lw lh = Ok ops ->
  let c' := with_batch (with_mode c m) b in
  let o := d_opts st in
  let k' := ctl_run k (exec_trace c' st (map (pop_of_tiop col) ops)) in
  exec_all_ok c' st (map (pop_of_tiop col) ops) = true /\ k_flags k' = k_flags k /\
  (forall x y, 0 <= x < lw -> 0 <= y < lh ->
     at_cell k' o x y = match ti_pixel lw lh x y with
                        | Some tc => Some (c_enc c (raw_of col tc))
                        | None => at_cell k o x y
                        end) /\
  (forall cx cy, ~ (o_ox o <= cx < o_ox o + o_w o /\ o_oy o <= cy < o_oy o + o_h o) ->
     mem k' cx cy = mem k cx cy).
Proof. exact ti_through_display_any_profile. Qed.

(* 4. On logical sizes of at least 32 x 32, on the physical panel: every cell of the panel window is
      painted with one of the five colours; the cells of the outermost logical rows and columns are
      white and those of the ring just inside are black; the bottom row of the bar area is a red |
      green | blue strip with non-empty, ordered column ranges; the inset corners hold white (the
      marker), blue, red, blue. `shows x y tc`: the cell of logical (x, y) holds the words of tc. *)
Theorem C19D_ti_on_panel_diagnostic : forall (c : ctx) (col : colorfmt) (st : dstate) (k : ctl) (lw lh : Z) (ops : list tiop),
  valid_cfg c (d_opts st) -> madctl_ok st -> ctl_matches c (d_opts st) k ->
  (1 <= c_rowcap c)%nat -> (c_rowcap c <= c_blockcap c)%nat ->
  lsize (d_opts st) = (lw, lh) -> ti_ops lw lh = Ok ops ->
  32 <= lw -> 32 <= lh ->
  let o := d_opts st in
  let k' := ctl_run k (exec_trace c st (map (pop_of_tiop col) ops)) in
  let w3 := (lw - 10) / 3 in
  let shows x y tc := at_cell k' o x y = Some (c_enc c (raw_of col tc)) in
  (forall x y, 0 <= x < lw -> 0 <= y < lh -> exists tc, ti_pixel lw lh x y = Some tc /\ shows x y tc) /\
  (forall cx cy, o_ox o <= cx < o_ox o + o_w o -> o_oy o <= cy < o_oy o + o_h o ->
     exists tc, mem k' cx cy = Some (c_enc c (raw_of col tc))) /\
  (forall x y, 0 <= x < lw -> 0 <= y < lh -> x = 0 \/ x = lw - 1 \/ y = 0 \/ y = lh - 1 -> shows x y TWhite) /\
  (forall x y, (1 <= x <= lw - 2 /\ (y = 1 \/ y = lh - 2)) \/ (1 <= y <= lh - 2 /\ (x = 1 \/ x = lw - 2)) ->
     shows x y TBlack) /\
  (forall x, 5 <= x <= lw - 6 ->
     shows x (lh - 6) (if x <? 5 + w3 then TRed else if x <? lw - 5 - w3 then TGreen else TBlue)) /\
  (5 < 5 + w3 /\ 5 + w3 < lw - 5 - w3 /\ lw - 5 - w3 <= lw - 6) /\
  shows 5 5 TWhite /\ shows (lw - 6) 5 TBlue /\ shows 5 (lh - 6) TRed /\ shows (lw - 6) (lh - 6) TBlue.
Proof. exact ti_on_panel_diagnostic. Qed.

(* Every cell of the panel window is the cell of exactly one in-bounds logical point (`uncell` is the
   inverse of `cell`; injectivity is C01_cell_injective), so (3) and (4) speak about the whole window. *)
Theorem C19D_cell_onto : forall (o : opts) (cx cy : Z),
  o_ox o <= cx < o_ox o + o_w o -> o_oy o <= cy < o_oy o + o_h o ->
  let '(x, y) := uncell o cx cy in
  0 <= x < fst (lsize o) /\ 0 <= y < snd (lsize o) /\ cell (panel_of o) (o_orient o) x y = (cx, cy).
Proof. exact cell_uncell. Qed.

(* 5. Decoding the stored words returns the drawn colour (C05 composed with C01). After
      set_pixel(x, y, raw) the cell of (x, y) holds the encoder's words for raw; for the three encoders
      of src/interface.rs a controller decoding them for the announced format reads back the
      components raw was built from. *)
Theorem C19D_drawn_colour_decodes : forall (c : ctx) (st : dstate) (k : ctl) (x y raw : Z),
  valid_cfg c (d_opts st) -> ctl_matches c (d_opts st) k ->
  0 <= x < fst (lsize (d_opts st)) -> 0 <= y < snd (lsize (d_opts st)) ->
  let o := d_opts st in
  let k' := ctl_run k (fst (fst (step c st (PSetPixel x y raw)))) in
  snd (fst (step c st (PSetPixel x y raw))) = ROk /\
  at_cell k' o x y = Some (c_enc c raw) /\
  (c_enc c = enc565_8 -> forall r g b, 0 <= r < 32 -> 0 <= g < 64 -> 0 <= b < 32 -> raw = raw565 r g b ->
     at_cell k' o x y = Some (enc565_8 raw) /\ dec565_8 (enc565_8 raw) = Some (r, g, b)) /\
  (c_enc c = enc565_16 -> forall r g b, 0 <= r < 32 -> 0 <= g < 64 -> 0 <= b < 32 -> raw = raw565 r g b ->
     at_cell k' o x y = Some (enc565_16 raw) /\ dec565_16 (enc565_16 raw) = Some (r, g, b)) /\
  (c_enc c = enc666_8 -> forall r g b, 0 <= r < 64 -> 0 <= g < 64 -> 0 <= b < 64 -> raw = raw666 r g b ->
     at_cell k' o x y = Some (enc666_8 raw) /\ dec666_8 (enc666_8 raw) = Some (r, g, b)).
Proof. exact drawn_colour_decodes. Qed.

(* 5'. The same for the TestImage picture: with the encoder of the model's colour format and bus width,
       a controller decoding the cell of a painted logical pixel reads back the components of the
       picture's colour (`rgb_of`: WHITE = all ones, BLACK = zeros, RED / GREEN / BLUE = one full
       channel), and distinct picture colours are stored as distinct words. *)
Theorem C19D_ti_panel_decodes : forall (c : ctx) (col : colorfmt) (w16 : bool) (st : dstate) (k : ctl)
                                    (lw lh : Z) (ops : list tiop),
  valid_cfg c (d_opts st) -> madctl_ok st -> ctl_matches c (d_opts st) k ->
  (1 <= c_rowcap c)%nat -> (c_rowcap c <= c_blockcap c)%nat ->
  lsize (d_opts st) = (lw, lh) -> ti_ops lw lh = Ok ops -> c_enc c = enc_of col w16 ->
  let o := d_opts st in
  let k' := ctl_run k (exec_trace c st (map (pop_of_tiop col) ops)) in
  forall x y tc, 0 <= x < lw -> 0 <= y < lh -> ti_pixel lw lh x y = Some tc ->
    exists ws, at_cell k' o x y = Some ws /\ dec_of col w16 ws = Some (rgb_of col tc).
Proof. exact ti_panel_decodes. Qed.

Theorem C19D_colour_words_injective : forall (col : colorfmt) (w16 : bool) (a b : tcolor),
  enc_of col w16 (raw_of col a) = enc_of col w16 (raw_of col b) -> a = b.
Proof. exact ti_colour_words_injective. Qed.

Theorem C19D_raw_of_components : forall (col : colorfmt) (tc : tcolor),
  raw_of col tc = let '(r, g, b) := rgb_of col tc in
                  match col with CRgb565 => raw565 r g b | CRgb666 => raw666 r g b end.
Proof. exact raw_of_components. Qed.

(* ---- a computed instance ----
   Native window 34 x 40 at offset (3, 7) in a 50 x 60 framebuffer, Deg90 mirrored: the logical size is
   40 x 34 and logical (x, y) lands in cell (3 + y, 7 + x). Rgb565 over an 8-bit path, batching on. *)
Definition exd_c : ctx :=
  {| c_md := Debug; c_batch := true; c_fw := 50; c_fh := 60; c_enc := enc_of CRgb565 false;
     c_rowcap := 50; c_blockcap := 100 |}.
Definition exd_o : opts :=
  {| o_bgr := false; o_orient := {| rotn := D90; mir := true |}; o_inv := false; o_btt := false;
     o_rtl := false; o_w := 34; o_h := 40; o_ox := 3; o_oy := 7 |}.
Definition exd_st : dstate := fresh_state exd_o.
Definition exd_k : ctl := ctl_run (power_on 50 60) [ECmd 0x36 [madctl_of_opts exd_o]].
Definition exd_prog : list pop :=
  match ti_ops 40 34 with Ok ops => map (pop_of_tiop CRgb565) ops | _ => [] end.
Definition exd_k' : ctl := ctl_run exd_k (exec_trace exd_c exd_st exd_prog).

Example C19D_ex_hyps :
  valid_cfg exd_c (d_opts exd_st) /\ madctl_ok exd_st /\ ctl_matches exd_c (d_opts exd_st) exd_k /\
  (1 <= c_rowcap exd_c)%nat /\ (c_rowcap exd_c <= c_blockcap exd_c)%nat /\
  lsize (d_opts exd_st) = (40, 34) /\ res_of (ti_ops 40 34) = ROk /\ List.length exd_prog = 27%nat.
Proof.
  split; [unfold valid_cfg; cbn; lia|]. split; [reflexivity|].
  split; [unfold ctl_matches; vm_compute; repeat split|].
  split; [cbn; lia|]. split; [cbn; lia|]. vm_compute. repeat split.
Qed.

Example C19D_ex_cells :
  exec_all_ok exd_c exd_st exd_prog = true /\ k_flags exd_k' = [] /\
  cell (panel_of exd_o) (o_orient exd_o) 5 5 = (8, 12) /\
  cell (panel_of exd_o) (o_orient exd_o) 34 5 = (8, 41) /\
  cell (panel_of exd_o) (o_orient exd_o) 5 28 = (31, 12) /\
  cell (panel_of exd_o) (o_orient exd_o) 34 28 = (31, 41) /\
  mem exd_k' 8 12 = Some [255; 255] /\            (* marker corner: white *)
  mem exd_k' 8 41 = Some [0; 31] /\               (* logical (lw-6, 5): blue *)
  mem exd_k' 31 12 = Some [248; 0] /\             (* logical (5, lh-6): red *)
  mem exd_k' 31 41 = Some [0; 31] /\              (* logical (lw-6, lh-6): blue *)
  mem exd_k' 31 22 = Some [7; 224] /\             (* logical (15, 28): green *)
  mem exd_k' 3 7 = Some [255; 255] /\             (* logical (0, 0): white frame *)
  mem exd_k' 36 46 = Some [255; 255] /\           (* logical (39, 33): white frame *)
  mem exd_k' 4 8 = Some [0; 0] /\                 (* logical (1, 1): black ring *)
  mem exd_k' 2 7 = None /\ mem exd_k' 37 7 = None /\ mem exd_k' 3 6 = None /\ mem exd_k' 3 47 = None /\
  dec565_8 [248; 0] = Some (31, 0, 0) /\ dec565_8 [0; 31] = Some (0, 0, 31) /\
  dec565_8 [255; 255] = Some (31, 63, 31).
Proof. vm_compute. repeat split. Qed.

(* the whole 40 x 34 raster, read back from controller memory through `cell`, is the picture *)
Example C19D_ex_raster :
  forallb (fun y => forallb (fun x =>
     match at_cell exd_k' exd_o x y, ti_pixel 40 34 x y with
     | Some ws, Some tc => zlist_eqb ws (enc_of CRgb565 false (raw_of CRgb565 tc))
     | _, _ => false
     end) (zseq 40)) (zseq 34) = true.
Proof. vm_compute. reflexivity. Qed.

Print Assumptions C19D_ti_prog_wf.
Print Assumptions C19D_ti_through_display_writes.
Print Assumptions C19D_ti_through_display_picture.
Print Assumptions C19D_ti_through_display_any_profile.
Print Assumptions C19D_ti_on_panel_diagnostic.
Print Assumptions C19D_cell_onto.
Print Assumptions C19D_drawn_colour_decodes.
Print Assumptions C19D_ti_panel_decodes.
Print Assumptions C19D_colour_words_injective.
Print Assumptions C19D_raw_of_components.
Print Assumptions C19D_ex_hyps.
Print Assumptions C19D_ex_cells.
Print Assumptions C19D_ex_raster.
