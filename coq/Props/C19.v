(* C19 — TestImage::draw never panics, relies only on the target's clipping, and on every target of at
   least 32 x 32 pixels paints a picture that exposes a wrong size, offset, orientation, colour order
   or inversion. Statements only; the model is Model/TestImage.v (constants and glyph bitmaps are read
   from Gen/Consts.v, regenerated from src/test_image.rs), the proofs are in Proofs/TestImageP.v. *)
Require Import Model.Base Model.Rect Model.TestImage.
Require Import Gen.Consts.
Require Import Proofs.TestImageP.

(* T1. For every target size an embedded-graphics Size can have with i32-representable corners
   (0 <= W, H < 2^31), in the Debug profile (overflow checks and debug_assert! on): the drawing returns
   normally; every area handed to the target is a valid embedded-graphics rectangle (top_left + size
   fits i32), whatever its position relative to the target — the rest is the target's clipping; the
   marker loop ends after exactly TOP_LEFT_MARKER_SIZE calls, which are the tail of the sequence. *)
Theorem C19_total : forall W H, 0 <= W < 2 ^ 31 -> 0 <= H < 2 ^ 31 ->
  exists ops mk,
    ti_ops W H = Ok ops /\ Forall (fun op => rect_valid (op_rect op)) ops /\
    ti_marker_ops W H = Ok mk /\ Z.of_nat (length mk) = gen_TOP_LEFT_MARKER_SIZE /\
    exists pre, ops = pre ++ mk.
Proof. exact ti_total. Qed.

(* On targets of at least 32 x 32 nothing is even left to clipping: every area lies inside the target. *)
Theorem C19_inside : forall W H, 32 <= W < 2 ^ 31 -> 32 <= H < 2 ^ 31 ->
  exists ops, ti_ops W H = Ok ops /\ Forall (fun op => rect_inside W H (op_rect op)) ops.
Proof. exact ti_inside. Qed.

(* T2. Every cell is painted. *)
Theorem C19_covered : forall W H, 32 <= W < 2 ^ 31 -> 32 <= H < 2 ^ 31 ->
  forall x y, 0 <= x < W -> 0 <= y < H -> ti_pixel W H x y <> None.
Proof. exact ti_covered. Qed.

(* T3. The outermost rows and columns are pure white, and the ring just inside them is pure black:
   the white frame is exactly one pixel wide. *)
Theorem C19_frame : forall W H, 32 <= W < 2 ^ 31 -> 32 <= H < 2 ^ 31 ->
  (forall x y, 0 <= x < W -> 0 <= y < H -> x = 0 \/ x = W - 1 \/ y = 0 \/ y = H - 1 ->
     ti_pixel W H x y = Some TWhite) /\
  (forall x y, (1 <= x <= W - 2 /\ (y = 1 \/ y = H - 2)) \/ (1 <= y <= H - 2 /\ (x = 1 \/ x = W - 2)) ->
     ti_pixel W H x y = Some TBlack).
Proof. exact ti_frame. Qed.

(* T4. The bar area is A = [5, W-6] x [5, H-6]; w3 = (W - 10) / 3 is the width of the red and of the
   blue bar (area.size.width / 3). Glyph boxes (9 x 11, Model/TestImage.v): ti_gbox / ti_rbox / ti_bbox
   are centred on the centres of the whole area / the red bar / the blue bar; ti_in_marker is the
   triangle with rows 5..24, row y holding columns 5 .. 29 - y.
   (i)   white or black occurs in A only inside the marker or a glyph box;
   (ii)  a cell of A outside the marker and the glyph boxes is red for x < 5 + w3, blue for
         x >= W - 5 - w3, green in between;
   (iii) the three column ranges are non-empty and ordered red < green < blue; the bottom row of A is an
         undisturbed red | green | blue strip, with (5, H-6), (5 + w3, H-6), (W-6, H-6) as pure cells. *)
Theorem C19_bars : forall W H, 32 <= W < 2 ^ 31 -> 32 <= H < 2 ^ 31 ->
  let w3 := (W - 10) / 3 in
  (forall x y c, 5 <= x <= W - 6 -> 5 <= y <= H - 6 ->
     ti_pixel W H x y = Some c -> c = TWhite \/ c = TBlack ->
     ti_in_marker x y = true \/ in_rect (ti_gbox W H) x y = true \/
     in_rect (ti_rbox W H) x y = true \/ in_rect (ti_bbox W H) x y = true) /\
  (forall x y, 5 <= x <= W - 6 -> 5 <= y <= H - 6 ->
     ti_in_marker x y = false -> in_rect (ti_gbox W H) x y = false ->
     in_rect (ti_rbox W H) x y = false -> in_rect (ti_bbox W H) x y = false ->
     ti_pixel W H x y = Some (if x <? 5 + w3 then TRed else if x <? W - 5 - w3 then TGreen else TBlue)) /\
  (5 < 5 + w3 /\ 5 + w3 < W - 5 - w3 /\ W - 5 - w3 <= W - 6) /\
  (forall x, 5 <= x <= W - 6 ->
     ti_pixel W H x (H - 6) = Some (if x <? 5 + w3 then TRed else if x <? W - 5 - w3 then TGreen else TBlue)) /\
  ti_pixel W H 5 (H - 6) = Some TRed /\
  ti_pixel W H (5 + w3) (H - 6) = Some TGreen /\
  ti_pixel W H (W - 6) (H - 6) = Some TBlue.
Proof. exact ti_bars. Qed.

(* T5. The picture differs from each of its seven mirrored / rotated versions at an explicit cell
   (ti_differs_at W H T p: p and T p are cells and carry different colours). The four symmetries that
   exchange the axes keep the W x H grid only when W = H; for W <> H the changed size is itself visible.
   (5,5) is the white marker corner; (W-6,5) and (W-6,H-6) are blue, (5,H-6) is red. *)
Theorem C19_asymmetric : forall W H, 32 <= W < 2 ^ 31 -> 32 <= H < 2 ^ 31 ->
  ti_differs_at W H (sym_flip_x W H) (5, 5) /\            (* (x,y) -> (W-1-x, y) *)
  ti_differs_at W H (sym_flip_y W H) (5, 5) /\            (* (x,y) -> (x, H-1-y) *)
  ti_differs_at W H (sym_rot180 W H) (5, 5) /\            (* (x,y) -> (W-1-x, H-1-y) *)
  (W = H -> ti_differs_at W H (sym_transpose W H) (5, H - 6)) /\    (* (x,y) -> (y, x) *)
  (W = H -> ti_differs_at W H (sym_antitranspose W H) (5, 5)) /\    (* (x,y) -> (W-1-y, H-1-x) *)
  (W = H -> ti_differs_at W H (sym_rot90 W H) (5, 5)) /\            (* (x,y) -> (W-1-y, x) *)
  (W = H -> ti_differs_at W H (sym_rot270 W H) (5, 5)).             (* (x,y) -> (y, H-1-x) *)
Proof. exact ti_asymmetric. Qed.

(* The picture in closed form (ti_spec32: the calls in reverse source order, first hit wins). *)
Theorem C19_closed_form : forall W H, 32 <= W < 2 ^ 31 -> 32 <= H < 2 ^ 31 ->
  forall x y, 0 <= x < W -> 0 <= y < H -> ti_pixel W H x y = ti_spec32 W H x y.
Proof. exact ti_pixel_spec32. Qed.

(* The executable raster is the picture; a stream given as a function of the point (the border call)
   is the same as the materialised fill_contiguous(area, area.points().map(f)). *)
Theorem C19_raster : forall W H x y, 0 <= W < 2 ^ 31 -> 0 <= H < 2 ^ 31 -> 0 <= x < W -> 0 <= y < H ->
  exists row, nth_error (ti_raster W H) (Z.to_nat y) = Some row /\
              nth_error row (Z.to_nat x) = Some (ti_pixel W H x y).
Proof. exact ti_raster_cell. Qed.
Theorem C19_stream : forall ops x y, pixel_of (map tiop_concrete ops) x y = pixel_of ops x y.
Proof. exact pixel_of_concrete. Qed.

(* ---- computed instances ---- *)
Example C19_ex_32 :
  ti_pixel 32 32 5 5 = Some TWhite /\ ti_pixel 32 32 26 5 = Some TBlue /\
  ti_pixel 32 32 5 26 = Some TRed /\ ti_pixel 32 32 26 26 = Some TBlue /\
  ti_pixel 32 32 12 26 = Some TGreen /\ ti_pixel 32 32 0 17 = Some TWhite /\
  ti_pixel 32 32 1 17 = Some TBlack /\ ti_pixel 32 32 32 0 = None.
Proof. vm_compute. repeat split. Qed.
Example C19_ex_240x320 :
  ti_pixel 240 320 5 5 = Some TWhite /\ ti_pixel 240 320 234 5 = Some TBlue /\
  ti_pixel 240 320 5 314 = Some TRed /\ ti_pixel 240 320 234 314 = Some TBlue /\
  ti_pixel 240 320 81 314 = Some TGreen /\ ti_pixel 240 320 239 319 = Some TWhite /\
  ti_pixel 240 320 238 318 = Some TBlack /\
  (* the glyph R: top-left of its stem, and a background cell of its box *)
  ti_pixel 240 320 41 156 = Some TWhite /\ ti_pixel 240 320 39 154 = Some TBlack.
Proof. vm_compute. repeat split. Qed.
(* degenerate and extreme sizes: no panic *)
Example C19_ex_small :
  map (fun wh => res_of (ti_ops (fst wh) (snd wh)))
      [(0, 0); (1, 1); (2, 2); (0, 7); (7, 0); (9, 10); (10, 9); (11, 11); (31, 31); (2147483647, 2147483647)]
  = [ROk; ROk; ROk; ROk; ROk; ROk; ROk; ROk; ROk; ROk].
Proof. vm_compute. reflexivity. Qed.
(* the calls on a 40 x 33 target, in order *)
Example C19_ex_calls : match ti_ops 40 33 with Ok ops => map op_rect (firstn 8 ops) | _ => [] end =
  [ {| rx := 0; ry := 0; rw := 40; rh := 33 |};      (* border: fill_contiguous over the bounding box *)
    {| rx := 5; ry := 5; rw := 30; rh := 23 |};      (* green *)
    {| rx := 15; ry := 11; rw := 9; rh := 11 |};     (* G *)
    {| rx := 5; ry := 5; rw := 10; rh := 23 |};      (* red *)
    {| rx := 5; ry := 11; rw := 9; rh := 11 |};      (* R *)
    {| rx := 25; ry := 5; rw := 10; rh := 23 |};     (* blue *)
    {| rx := 25; ry := 11; rw := 9; rh := 11 |};     (* B *)
    {| rx := 5; ry := 5; rw := 20; rh := 1 |} ].     (* first marker row *)
Proof. vm_compute. reflexivity. Qed.

(* Dumps (W white, . black, R G B; ? would be an unpainted cell). The expected text is the output of the
   real TestImage::draw on a clipping mock DrawTarget (debug build), pasted here. The 14 x 12 one shows
   what is left to clipping on a target that is too small for the property. *)
Module Dump.
Import String.
Local Open Scope string_scope.
Example C19_ex_dump_32 : ti_dump 32 32 = [
    "WWWWWWWWWWWWWWWWWWWWWWWWWWWWWWWW";
    "W..............................W";
    "W..............................W";
    "W..............................W";
    "W..............................W";
    "W....WWWWWWWWWWWWWWWWWWWWBB....W";
    "W....WWWWWWWWWWWWWWWWWWWBBB....W";
    "W....WWWWWWWWWWWWWWWWWWBBBB....W";
    "W....WWWWWWWWWWWWWWWWWBBBBB....W";
    "W....WWWWWWWWWWWWWWWWBBBBBB....W";
    "W....WWWWWWWWWWWWWWW...........W";
    "W....WWWWWWWWWWWWWW............W";
    "W....WWWWWWWWWWWWW...WWWW......W";
    "W....WWWWWWWWWWWW....W...W.....W";
    "W....WWWWWWWWWWW.....W...W.....W";
    "W....WWWWWWWWWWWWW...WWWW......W";
    "W....WWWWWWWWW...W...W...W.....W";
    "W....WWWWWWWWW...W...W...W.....W";
    "W....WWWWWWW..WWWW...WWWW......W";
    "W....WWWWWW....................W";
    "W....WWWWW.....................W";
    "W....WWWWRRRGGGGGGGGBBBBBBB....W";
    "W....WWWRRRRGGGGGGGGBBBBBBB....W";
    "W....WWRRRRRGGGGGGGGBBBBBBB....W";
    "W....WRRRRRRGGGGGGGGBBBBBBB....W";
    "W....RRRRRRRGGGGGGGGBBBBBBB....W";
    "W....RRRRRRRGGGGGGGGBBBBBBB....W";
    "W..............................W";
    "W..............................W";
    "W..............................W";
    "W..............................W";
    "WWWWWWWWWWWWWWWWWWWWWWWWWWWWWWWW"
  ]%list.
Proof. vm_compute. reflexivity. Qed.
Example C19_ex_dump_14x12 : ti_dump 14 12 = [
    "W............W";
    "W............W";
    "W..W..WWWW...W";
    "W..W..W...W..W";
    "W..W..W...W..W";
    "W..W.WWWWWWWWW";
    "W..W.WWWWWWWWW";
    "W..W.WWWWWWWWW";
    "W..W.WWWWWWWWW";
    "W....WWWWWWWWW";
    "W....WWWWWWWWW";
    "WWWWWWWWWWWWWW"
  ]%list.
Proof. vm_compute. reflexivity. Qed.
End Dump.
