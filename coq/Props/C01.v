(* C01 — drawn pixels land at the oriented, offset panel position. Statements only. *)
Require Import Model.Base Model.Orient Model.Dcs Model.Events Model.Builder Model.Rect Model.Batch Model.Display.
Require Import Oracle.Spec Oracle.Controller Proofs.DcsP Proofs.WindowP Proofs.CtlP.

(* for every configuration Builder::init accepts, every orientation, both build profiles: the
   orientation-adjusted offset is computed without u16 overflow *)
Theorem C01_offset_no_overflow : forall c o, valid_cfg c o -> window_offset c o = Ok (win_off c o).
Proof. exact window_offset_ok. Qed.

(* an in-bounds logical rectangle yields exactly CASET, RASET with big-endian start/end = logical
   coordinate + offset; no arithmetic panics *)
Theorem C01_window_events : forall c o sx sy ex ey,
  valid_cfg c o ->
  0 <= sx <= ex -> ex < fst (lsize o) -> 0 <= sy <= ey -> ey < snd (lsize o) ->
  let '(dx, dy) := win_off c o in
  set_address_window c o sx sy ex ey =
  ([ECmd 0x2A (be16 (sx + dx) ++ be16 (ex + dx)); ECmd 0x2B (be16 (sy + dy) ++ be16 (ey + dy))], Ok tt).
Proof. exact set_address_window_ok. Qed.

(* the window never leaves what the controller can address under this orientation *)
Theorem C01_window_inside : forall c o, valid_cfg c o ->
  let '(dx, dy) := win_off c o in
  let '(lw, lh) := lsize o in
  0 <= dx /\ 0 <= dy /\
  dx + lw <= (if swap (from_orient (o_orient o)) then c_fh c else c_fw c) /\
  dy + lh <= (if swap (from_orient (o_orient o)) then c_fw c else c_fh c).
Proof. exact win_off_bounds. Qed.

(* central lemma: with the MADCTL bits of the orientation, the controller decodes column/page
   (x + dx, y + dy) as the framebuffer cell "rotate clockwise, mirror, shift" of (x, y) — all sizes,
   offsets, orientations, points *)
Theorem C01_window_cell : forall c o m x y,
  my m = rev_rows (from_orient (o_orient o)) -> mx m = rev_cols (from_orient (o_orient o)) ->
  mv m = swap (from_orient (o_orient o)) ->
  let '(dx, dy) := win_off c o in
  phys (c_fw c) (c_fh c) m (x + dx) (y + dy) = spec_cell (o_w o) (o_h o) (o_ox o) (o_oy o) (o_orient o) x y.
Proof. exact window_cell. Qed.
Theorem C01_madctl_bits : forall bgr o btt rtl,
  let m := madctl_new bgr o btt rtl in
  my m = rev_rows (from_orient o) /\ mx m = rev_cols (from_orient o) /\ mv m = swap (from_orient o).
Proof. exact madctl_new_bits. Qed.

(* the reference controller decodes window + burst (any length up to the window area) as a row-major
   walk over the window: nothing else in its state changes, no anomaly is flagged *)
Theorem C01_burst_decoding : forall k sx ex sy ey wss,
  k_page k = false ->
  0 <= sx -> sx <= ex -> ex <= 65535 -> ex < col_extent k ->
  0 <= sy -> sy <= ey -> ey <= 65535 -> ey < page_extent k ->
  (length wss <= Z.to_nat (ex - sx + 1) * Z.to_nat (ey - sy + 1))%nat ->
  let k' := ctl_run k [ECmd 0x2A (be16 sx ++ be16 ex); ECmd 0x2B (be16 sy ++ be16 ey); ECmd 0x2C []; EPixels wss] in
  same_regs k k' /\
  writes k' = writes k ++ map (to_wr (k_fw k) (k_fh k) (k_madctl k))
                              (host_rows sx sy (Z.to_nat (ex - sx + 1)) (Z.to_nat (ey - sy + 1)) wss).
Proof. exact ctl_window_pixels. Qed.

Theorem C01_fill_decoding : forall k sx ex sy ey ws,
  k_page k = false ->
  0 <= sx -> sx <= ex -> ex <= 65535 -> ex < col_extent k ->
  0 <= sy -> sy <= ey -> ey <= 65535 -> ey < page_extent k ->
  let k' := ctl_run k [ECmd 0x2A (be16 sx ++ be16 ex); ECmd 0x2B (be16 sy ++ be16 ey); ECmd 0x2C [];
                       ERepeat ws ((ex - sx + 1) * (ey - sy + 1))] in
  same_regs k k' /\
  writes k' = writes k ++
    [let '(xa, ya) := phys (k_fw k) (k_fh k) (k_madctl k) sx sy in
     let '(xb, yb) := phys (k_fw k) (k_fh k) (k_madctl k) ex ey in
     WRect (Z.min xa xb) (Z.min ya yb) (Z.max xa xb) (Z.max ya yb) ws].
Proof. exact ctl_window_repeat. Qed.

(* non-vacuity: 1x1 and 65535x65535 framebuffers, and a 100x50 window at (3,7) in 240x320 *)
Definition ex_ctx fw fh := {| c_md := Debug; c_batch := true; c_fw := fw; c_fh := fh; c_enc := fun v => [v];
                              c_rowcap := 50; c_blockcap := 100 |}.
Definition ex_opts w h ox oy r m := {| o_bgr := false; o_orient := {| rotn := r; mir := m |}; o_inv := false;
                                       o_btt := false; o_rtl := false; o_w := w; o_h := h; o_ox := ox; o_oy := oy |}.
Example C01_ex_valid :
  valid_cfg (ex_ctx 1 1) (ex_opts 1 1 0 0 D270 true) /\
  valid_cfg (ex_ctx 65535 65535) (ex_opts 65535 65535 0 0 D90 false) /\
  valid_cfg (ex_ctx 240 320) (ex_opts 100 50 3 7 D180 true).
Proof. unfold valid_cfg; cbn; lia. Qed.
