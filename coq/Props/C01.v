(* C01 — drawn pixels land at the oriented, offset panel position. Statements only. *)
Require Import Model.Base Model.Orient Model.Dcs Model.Events Model.Builder Model.Rect Model.Batch Model.Display.
Require Import Oracle.Spec Oracle.Controller Proofs.DcsP Proofs.WindowP Proofs.CtlP.

(* for every configuration Builder::init accepts, every orientation, both build profiles: the
   orientation-adjusted offset is computed without u16 overflow *)
Theorem C01_offset_no_overflow : forall c o, valid_cfg c o -> window_offset c o = Ok (win_off c o).
Proof. exact window_offset_ok. Qed.

(* an in-bounds logical rectangle yields exactly CASET, RASET with big-endian start/end = logical
   coordinate + offset; no arithmetic panics *)
Theorem C01_window_events : forall c o sx sy ex ey,
  valid_cfg c o ->
  0 <= sx <= ex -> ex < fst (lsize o) -> 0 <= sy <= ey -> ey < snd (lsize o) ->
  let '(dx, dy) := win_off c o in
  set_address_window c o sx sy ex ey =
  ([ECmd 0x2A (be16 (sx + dx) ++ be16 (ex + dx)); ECmd 0x2B (be16 (sy + dy) ++ be16 (ey + dy))], Ok tt).
Proof. exact set_address_window_ok. Qed.

(* the window never leaves what the controller can address under this orientation *)
Theorem C01_window_inside : forall c o, valid_cfg c o ->
  let '(dx, dy) := win_off c o in
  let '(lw, lh) := lsize o in
  0 <= dx /\ 0 <= dy /\
  dx + lw <= (if swap (from_orient (o_orient o)) then c_fh c else c_fw c) /\
  dy + lh <= (if swap (from_orient (o_orient o)) then c_fw c else c_fh c).
Proof. exact win_off_bounds. Qed.

(* central lemma: with the MADCTL bits of the orientation, the controller decodes column/page
   (x + dx, y + dy) as the framebuffer cell "rotate clockwise, mirror, shift" of (x, y) — all sizes,
   offsets, orientations, points *)
Theorem C01_window_cell : forall c o m x y,
  my m = rev_rows (from_orient (o_orient o)) -> mx m = rev_cols (from_orient (o_orient o)) ->
  mv m = swap (from_orient (o_orient o)) ->
  let '(dx, dy) := win_off c o in
  phys (c_fw c) (c_fh c) m (x + dx) (y + dy) = spec_cell (o_w o) (o_h o) (o_ox o) (o_oy o) (o_orient o) x y.
Proof. exact window_cell. Qed.
Theorem C01_madctl_bits : forall bgr o btt rtl,
  let m := madctl_new bgr o btt rtl in
  my m = rev_rows (from_orient o) /\ mx m = rev_cols (from_orient o) /\ mv m = swap (from_orient o).
Proof. exact madctl_new_bits. Qed.

(* the reference controller decodes window + burst (any length up to the window area) as a row-major
   walk over the window: nothing else in its state changes, no anomaly is flagged *)
Theorem C01_burst_decoding : forall k sx ex sy ey wss,
  k_page k = false ->
  0 <= sx -> sx <= ex -> ex <= 65535 -> ex < col_extent k ->
  0 <= sy -> sy <= ey -> ey <= 65535 -> ey < page_extent k ->
  (length wss <= Z.to_nat (ex - sx + 1) * Z.to_nat (ey - sy + 1))%nat ->
  let k' := ctl_run k [ECmd 0x2A (be16 sx ++ be16 ex); ECmd 0x2B (be16 sy ++ be16 ey); ECmd 0x2C []; EPixels wss] in
  same_regs k k' /\
  writes k' = writes k ++ map (to_wr (k_fw k) (k_fh k) (k_madctl k))
                              (host_rows sx sy (Z.to_nat (ex - sx + 1)) (Z.to_nat (ey - sy + 1)) wss).
Proof. exact ctl_window_pixels. Qed.

Theorem C01_fill_decoding : forall k sx ex sy ey ws,
  k_page k = false ->
  0 <= sx -> sx <= ex -> ex <= 65535 -> ex < col_extent k ->
  0 <= sy -> sy <= ey -> ey <= 65535 -> ey < page_extent k ->
  let k' := ctl_run k [ECmd 0x2A (be16 sx ++ be16 ex); ECmd 0x2B (be16 sy ++ be16 ey); ECmd 0x2C [];
                       ERepeat ws ((ex - sx + 1) * (ey - sy + 1))] in
  same_regs k k' /\
  writes k' = writes k ++
    [let '(xa, ya) := phys (k_fw k) (k_fh k) (k_madctl k) sx sy in
     let '(xb, yb) := phys (k_fw k) (k_fh k) (k_madctl k) ex ey in
     WRect (Z.min xa xb) (Z.min ya yb) (Z.max xa xb) (Z.max ya yb) ws].
Proof. exact ctl_window_repeat. Qed.

(* non-vacuity: 1x1 and 65535x65535 framebuffers, and a 100x50 window at (3,7) in 240x320 *)
Definition ex_ctx fw fh := {| c_md := Debug; c_batch := true; c_fw := fw; c_fh := fh; c_enc := fun v => [v];
                              c_rowcap := 50; c_blockcap := 100 |}.
Definition ex_opts w h ox oy r m := {| o_bgr := false; o_orient := {| rotn := r; mir := m |}; o_inv := false;
                                       o_btt := false; o_rtl := false; o_w := w; o_h := h; o_ox := ox; o_oy := oy |}.
Example C01_ex_valid :
  valid_cfg (ex_ctx 1 1) (ex_opts 1 1 0 0 D270 true) /\
  valid_cfg (ex_ctx 65535 65535) (ex_opts 65535 65535 0 0 D90 false) /\
  valid_cfg (ex_ctx 240 320) (ex_opts 100 50 3 7 D180 true).
Proof. unfold valid_cfg; cbn; lia. Qed.

(* ================================================================================================ *)
(* whole programs of drawing calls (proofs in Proofs/DrawP.v, Proofs/ProgramP.v)                    *)
(* ================================================================================================ *)
Require Import Oracle.DrawSpec Proofs.DrawP Proofs.ClipP Proofs.BatchP Proofs.OrientStateP Proofs.ProgramP.

(* an in-bounds logical point lands inside the configured panel window ... *)
Theorem C01_cell_inside : forall o x y,
  0 <= x < fst (lsize o) -> 0 <= y < snd (lsize o) ->
  let '(cx, cy) := cell (panel_of o) (o_orient o) x y in
  o_ox o <= cx < o_ox o + o_w o /\ o_oy o <= cy < o_oy o + o_h o.
Proof. exact cell_inside_panel. Qed.

(* ... and distinct logical points land in distinct cells *)
Theorem C01_cell_injective : forall o x1 y1 x2 y2,
  0 <= x1 < fst (lsize o) -> 0 <= y1 < snd (lsize o) ->
  0 <= x2 < fst (lsize o) -> 0 <= y2 < snd (lsize o) ->
  cell (panel_of o) (o_orient o) x1 y1 = cell (panel_of o) (o_orient o) x2 y2 -> x1 = x2 /\ y1 = y2.
Proof. exact cell_injective. Qed.

(* ONE OPERATION. Driver state `st` with a configuration Builder::init accepts, cached MADCTL = encoding
   of the stored options; a reference controller `k` holding that MADCTL; the crate's batch capacities
   ordered (1 <= MAX_ROW_SIZE <= MAX_BLOCK_SIZE); `op` well-formed: set_pixel(s) in bounds, draw_iter
   with arbitrary i32 points, fill_contiguous / fill_solid with any valid Rectangle, clear,
   set_orientation. Then in both build profiles (c_md c is arbitrary):
   the call returns Ok; the driver state changes only for set_orientation; the controller's write
   history grows by EXACTLY the list the specification prescribes (rotate clockwise, mirror, shift by
   the offset); the controller flags no anomaly; controller and driver stay in agreement; every written
   cell is inside the panel window; a drawing call is framed (CASET RASET RAMWR PIX)* with no burst
   longer than its window; fills use one window when something is visible and none otherwise. *)
Theorem C01_op : forall c st k op,
  valid_cfg c (d_opts st) -> madctl_ok st -> ctl_matches c (d_opts st) k ->
  (1 <= c_rowcap c)%nat -> (c_rowcap c <= c_blockcap c)%nat -> op_wf (d_opts st) op ->
  let o := d_opts st in
  let t := fst (fst (step c st op)) in
  let r := snd (fst (step c st op)) in
  let st' := snd (step c st op) in
  let k' := ctl_run k t in
  let ws := spec_op_writes (c_enc c) (panel_of o) (o_orient o) op in
  r = ROk /\ st' = op_post st op /\
  writes k' = writes k ++ ws /\ k_flags k' = k_flags k /\
  ctl_matches c (d_opts st') k' /\ valid_cfg c (d_opts st') /\ madctl_ok st' /\
  Forall (wr_inside o) ws /\
  (is_draw op = true -> framing_ok t = true /\ bursts_fit t = true) /\
  (forall n, spec_ramwr o op = Some n -> count_ramwr t = n).
Proof. exact step_draw_decode. Qed.

(* ANY PROGRAM of such operations (orientation changes interleaved): every call returns Ok; the
   controller's write history grows by exactly the concatenation of the per-operation specification
   lists, each under the orientation in force at that point — an ORDERED list equality, so order of
   writes, last-write-wins and "no other cell changes" are all contained in it; no anomaly is flagged;
   the final driver state is the fold of `op_post`; driver and controller still agree afterwards. *)
Theorem C01_program : forall c ops st k,
  valid_cfg c (d_opts st) -> madctl_ok st -> ctl_matches c (d_opts st) k ->
  (1 <= c_rowcap c)%nat -> (c_rowcap c <= c_blockcap c)%nat -> prog_wf (d_opts st) ops ->
  let o := d_opts st in
  let st' := snd (exec c st ops) in
  let k' := ctl_run k (exec_trace c st ops) in
  let ws := spec_prog_writes (c_enc c) (panel_of o) (o_orient o) ops in
  exec_all_ok c st ops = true /\
  writes k' = writes k ++ ws /\ k_flags k' = k_flags k /\
  st' = fold_left op_post ops st /\
  ctl_matches c (d_opts st') k' /\ valid_cfg c (d_opts st') /\ madctl_ok st' /\
  Forall (wr_inside o) ws /\
  Forall2 (fun op tr => is_draw op = true -> framing_ok (fst tr) = true /\ bursts_fit (fst tr) = true)
          ops (fst (exec c st ops)).
Proof. exact exec_draw_program. Qed.

(* the framebuffer content afterwards: each cell holds the colour words of the LAST specification
   entry covering it, and what it held before if none does; cells outside the panel window never change *)
Theorem C01_last_write_wins : forall c ops st k x y,
  valid_cfg c (d_opts st) -> madctl_ok st -> ctl_matches c (d_opts st) k ->
  (1 <= c_rowcap c)%nat -> (c_rowcap c <= c_blockcap c)%nat -> prog_wf (d_opts st) ops ->
  let o := d_opts st in
  let k' := ctl_run k (exec_trace c st ops) in
  mem k' x y = last_write (spec_prog_writes (c_enc c) (panel_of o) (o_orient o) ops) x y (mem k x y) /\
  (~ (o_ox o <= x < o_ox o + o_w o /\ o_oy o <= y < o_oy o + o_h o) -> mem k' x y = mem k x y).
Proof. exact mem_last_write_wins. Qed.

(* ---- non-vacuity: a 100x50 window at (3,7) of a 240x320 controller, mounted upside down and
   mirrored; a program touching every kind of call, with off-screen pixels, a rectangle overlapping
   the corner, an orientation change in the middle ---- *)
Definition ex_c := ex_ctx 240 320.
Definition ex_o := ex_opts 100 50 3 7 D180 true.
Definition ex_st := fresh_state ex_o.
Definition ex_k := ctl_run (power_on 240 320) [ECmd 0x36 [madctl_of_opts ex_o]].
Definition ex_prog : list pop :=
  [ PClear 7;
    PSetPixel 3 4 1;
    PDrawIter [(-1, 0, 9); (0, 0, 2); (1, 0, 3); (2, 0, 4); (0, 1, 5); (5, 200, 6); (2147483647, -2147483648, 8)];
    PFillContig {| rx := -1; ry := -1; rw := 3; rh := 3 |} [10; 11; 12; 13; 14; 15; 16; 17; 18; 19];
    PSetOrient {| rotn := D90; mir := false |};
    PFillSolid {| rx := 40; ry := 90; rw := 100; rh := 100 |} 5;
    PSetPixels 0 0 1 1 [1; 2; 3];
    PFillContigGen {| rx := 48; ry := -2; rw := 4; rh := 4 |} 16;
    PFillSolid {| rx := 50; ry := 0; rw := 10; rh := 10 |} 9 ].

Example C01_ex_hyps :
  valid_cfg ex_c (d_opts ex_st) /\ madctl_ok ex_st /\ ctl_matches ex_c (d_opts ex_st) ex_k /\
  (1 <= c_rowcap ex_c)%nat /\ (c_rowcap ex_c <= c_blockcap ex_c)%nat /\ prog_wf (d_opts ex_st) ex_prog.
Proof.
  split; [unfold valid_cfg; cbn; lia|]. split; [reflexivity|].
  split; [unfold ctl_matches; vm_compute; repeat split|].
  split; [cbn; lia|]. split; [cbn; lia|].
  unfold ex_prog, prog_wf, op_wf, rect_valid, i32. cbn [d_opts ex_st fresh_state lsize ex_o ex_opts
    o_orient rotn is_horizontal o_w o_h set_orient rx ry rw rh length].
  change (2 ^ 31) with 2147483648. change (2 ^ 32) with 4294967296.
  repeat (split; try lia); repeat constructor; try lia.
Qed.

(* the same program, evaluated: the controller's write history IS the specification list (18 entries; the last fill is off-screen) *)
Example C01_ex_run :
  writes (ctl_run ex_k (exec_trace ex_c ex_st ex_prog)) =
  spec_prog_writes (c_enc ex_c) (panel_of ex_o) (o_orient ex_o) ex_prog /\
  length (spec_prog_writes (c_enc ex_c) (panel_of ex_o) (o_orient ex_o) ex_prog) = 18%nat /\
  k_flags (ctl_run ex_k (exec_trace ex_c ex_st ex_prog)) = [] /\
  exec_all_ok ex_c ex_st ex_prog = true.
Proof. vm_compute. repeat split. Qed.
