(* C17 — "When a reset pin is configured, initialisation drives it low, waits at least 10 microseconds,
   drives it high and leaves it high, sends no software reset, and puts nothing on the bus until the pin
   is high again. Without a reset pin, the first thing on the bus is the software-reset command, sent
   exactly once. In both cases all model-specific commands come after the reset."
   Statements only; proofs in Proofs/InitP.v. The trace of Builder::init is
   `reset_events rst ++ <events of Model::init>` (Model/Builder.v); `gen_models` is regenerated from
   src/models/*.rs on every run. *)
Require Import Model.Base Model.Orient Model.Dcs Model.Events Model.Builder Model.InitLang.
Require Import Oracle.Spec Oracle.Controller Oracle.InitSpec Gen.Models.
Require Import Proofs.InitP.
From Coq Require Import String.
Open Scope Z_scope.
Open Scope list_scope.

(* every built-in model, interface kind (supported or not), option set; rst = a reset pin is configured *)
Theorem C17_reset_first : forall m k o rst,
  In m gen_models ->
  let t0 := fst (run_init k (m_color m) o (m_prog m)) in
  let t := reset_events rst ++ t0 in
  reset_first_ok rst t = true /\
  (* with a pin: low, >= 10 us, high are the first three events (nothing on the bus before the pin is
     high again); afterwards the pin is never touched and no software reset is sent *)
  (rst = true ->
     exists d rest, t = ERstLow :: EDelay d :: ERstHigh :: rest /\ 10000 <= d /\
       forall e, In e rest -> is_rst e = false /\ is_softreset e = false) /\
  (* without: the first event is the software-reset command, and it is the only one *)
  (rst = false ->
     exists rest, t = ECmd 0x01 [] :: rest /\
       forall e, In e rest -> is_softreset e = false /\ is_rst e = false).
Proof. exact init_reset_first. Qed.

(* all model-specific events come after the reset: they are the suffix of the trace after
   `reset_events rst`, and none of them is a reset of either kind *)
Theorem C17_model_events_after_reset : forall m k o,
  In m gen_models ->
  forall e, In e (fst (run_init k (m_color m) o (m_prog m))) -> is_rst e = false /\ is_softreset e = false.
Proof. exact init_model_events_after_reset. Qed.

(* an interface kind the model cannot drive: the reset is all that reached the hardware *)
Theorem C17_unsupported_only_reset : forall md m k o rst,
  In m gen_models -> supported (m_prog m) k = false ->
  init_check md (m_fw m) (m_fh m) (o_w o) (o_h o) (o_ox o) (o_oy o) = Ok tt ->
  builder_init md (m_fw m) (m_fh m) rst o (run_init k (m_color m) o (m_prog m)) =
  (reset_events rst, Err (ECfg UnsupportedInterface)).
Proof. exact builder_init_unsupported. Qed.

(* ------------------------------------------------------------------ non-vacuity (booleans / numbers only) *)
Definition c17_model (n : nat) : model_def :=
  nth n gen_models {| m_name := EmptyString; m_fw := 0; m_fh := 0; m_color := CRgb565; m_prog := [] |}.
Definition c17_opts : opts :=
  {| o_bgr := false; o_orient := {| rotn := D0; mir := false |}; o_inv := false; o_btt := false; o_rtl := false;
     o_w := 240; o_h := 320; o_ox := 0; o_oy := 0 |}.
Definition c17_run (n : nat) (rst : bool) : list event :=
  reset_events rst ++ fst (run_init Serial4Line (m_color (c17_model n)) c17_opts (m_prog (c17_model n))).
Definition c17_count (f : event -> bool) (t : list event) : nat := List.length (filter f t).

(* ST7789 (model 12), reset pin: 14 events, two of them on the pin, no software reset *)
Example ex_pin : (List.length (c17_run 12 true), c17_count is_rst (c17_run 12 true), c17_count is_softreset (c17_run 12 true)) =
                 (14%nat, 2%nat, 0%nat).
Proof. vm_compute. reflexivity. Qed.
(* no pin: 12 events, exactly one software reset, the pin never touched *)
Example ex_soft : (List.length (c17_run 12 false), c17_count is_rst (c17_run 12 false), c17_count is_softreset (c17_run 12 false)) =
                  (12%nat, 0%nat, 1%nat).
Proof. vm_compute. reflexivity. Qed.
(* the checker does reject: a trace that resets too briefly, or sends a second software reset *)
Example ex_reject_short : reset_first_ok true [ERstLow; EDelay 9999; ERstHigh] = false.
Proof. vm_compute. reflexivity. Qed.
Example ex_reject_twice : reset_first_ok false [ECmd 0x01 []; ECmd 0x11 []; ECmd 0x01 []] = false.
Proof. vm_compute. reflexivity. Qed.
Example ex_reject_bus_before_high : reset_first_ok true [ERstLow; EDelay 10000; ECmd 0x11 []; ERstHigh] = false.
Proof. vm_compute. reflexivity. Qed.
