(* C16 — vertical scroll set-up always spans the framebuffer height and never panics. Statements only;
   proofs in Proofs/ScrollP.v. Model of the tree after the fix: commit for F3 (sum formed in u32). *)
Require Import Model.Base Model.Orient Model.Dcs Model.Events Model.Builder Model.Rect Model.Batch Model.Display.
Require Import Oracle.Controller Proofs.ScrollP.

(* for every pair of fixed-area heights in u16 x u16, every framebuffer height 1..65535, every build
   profile (c_md inside c), every driver state (so every orientation, size, offset): the call returns Ok,
   emits exactly one command 0x33 with three big-endian 16-bit parameters, and leaves the state alone *)
Theorem C16_region : forall c st top bottom,
  0 <= top <= 65535 -> 0 <= bottom <= 65535 -> 1 <= c_fh c <= 65535 ->
  step c st (PScrollRegion top bottom) =
  (let '(t, s, b) := scroll_areas (c_fh c) top bottom in [ECmd 0x33 (be16 t ++ be16 s ++ be16 b)], ROk, st).
Proof. exact step_scroll_region. Qed.

(* the three areas add up to the framebuffer height, each fits 16 bits (nothing wrapped), top and
   bottom are passed through unchanged whenever their sum fits, otherwise everything is fixed area *)
Theorem C16_areas : forall fh top bottom,
  0 <= top <= 65535 -> 0 <= bottom <= 65535 -> 1 <= fh <= 65535 ->
  let '(t, s, b) := scroll_areas fh top bottom in
  t + s + b = fh /\ 0 <= t <= 65535 /\ 0 <= s <= 65535 /\ 0 <= b <= 65535 /\
  (top + bottom <= fh -> t = top /\ b = bottom) /\
  (top + bottom > fh -> (t, s, b) = (fh, 0, 0)).
Proof. exact scroll_areas_sum. Qed.

(* debug and release builds behave identically: no overflow panic, no wrapped value *)
Theorem C16_no_panic : forall fw fh top bottom b e rc bc,
  0 <= top <= 65535 -> 0 <= bottom <= 65535 -> 1 <= fh <= 65535 ->
  set_vertical_scroll_region {| c_md := Debug; c_batch := b; c_fw := fw; c_fh := fh; c_enc := e; c_rowcap := rc; c_blockcap := bc |} top bottom
  = set_vertical_scroll_region {| c_md := Release; c_batch := b; c_fw := fw; c_fh := fh; c_enc := e; c_rowcap := rc; c_blockcap := bc |} top bottom.
Proof. exact scroll_region_mode_indep. Qed.

(* set_vertical_scroll_offset: the offset unchanged, big-endian *)
Theorem C16_offset : forall c st v,
  step c st (PScrollOffset v) = ([ECmd 0x37 [v / 256; v mod 256]], ROk, st).
Proof. exact step_scroll_offset. Qed.

(* what the reference controller decodes from these commands *)
Theorem C16_controller_region : forall k t s b,
  k_page k = false -> 0 <= t <= 65535 -> 0 <= s <= 65535 -> 0 <= b <= 65535 ->
  let k' := ctl_run k [ECmd 0x33 (be16 t ++ be16 s ++ be16 b)] in
  k_vscr k' = Some (t, s, b) /\ k_flags k' = k_flags k /\ k_wrev k' = k_wrev k /\ k_madctl k' = k_madctl k /\
  k_asleep k' = k_asleep k.
Proof. exact ctl_scroll_region. Qed.
Theorem C16_controller_offset : forall k v,
  k_page k = false -> 0 <= v <= 65535 ->
  let k' := ctl_run k [ECmd 0x37 [v / 256; v mod 256]] in
  k_vstart k' = Some v /\ k_flags k' = k_flags k /\ k_wrev k' = k_wrev k.
Proof. exact ctl_scroll_offset. Qed.

(* non-vacuity and the recorded finding F3: (65375, 161) on a 160-row framebuffer overflowed u16 on
   the pinned tree; the repaired arithmetic yields the all-fixed fallback *)
Example C16_ex : scroll_areas 160 65375 161 = (160, 0, 0) /\ scroll_areas 320 20 40 = (20, 260, 40)
  /\ scroll_areas 65535 65535 0 = (65535, 0, 0) /\ scroll_areas 1 0 1 = (0, 0, 1).
Proof. vm_compute. auto. Qed.
