(* C06 — SPI transport delivers exactly the bytes to send, in order, and terminates. Statements only. *)
Require Import Model.Base Model.Events Model.Spi Proofs.SpiP.

(* Helper predicate from Proofs/SpiP.v (one line):
     all_spi ops := Forall (fun o => match o with OSpi _ => True | _ => False end) ops
   i.e. the operation list contains SPI writes only (no DC / reset / delay operation).
   Throughout: n = bytes per pixel, buf = the staging buffer with arbitrary (stale) content,
   cap = length buf / n = the number of pixels one write can carry. *)

(* send_command: DC low, the instruction byte, DC high, the parameters — whatever DC was before *)
Theorem C06_spi_command_spec : forall buf cmd args,
  spi_send_command buf cmd args = ([ODc false; OSpi [cmd]; ODc true; OSpi args], buf, Ok tt) /\
  (forall dc,
     spi_wire dc [ODc false; OSpi [cmd]; ODc true; OSpi args] = (false, cmd) :: map (pair true) args /\
     dc_after dc [ODc false; OSpi [cmd]; ODc true; OSpi args] = true).
Proof. exact spi_command_spec. Qed.

(* send_pixels, for every pixel count and every buffer that holds at least one pixel:
   terminates with Ok (the fuel is never exhausted); the writes concatenated are exactly the pixel
   bytes in order (nothing lost, duplicated, reordered; no stale buffer byte); no DC toggling, so
   every byte goes out at the DC level the call started with; the buffer keeps its length; every
   write is a whole number of pixels and at most the usable buffer; the number of writes *)
Theorem C06_spi_pixels_spec : forall n buf px,
  1 <= n -> n <= Z.of_nat (length buf) ->
  Forall (fun p => Z.of_nat (length p) = n) px ->
  let cap := Z.of_nat (length buf) / n in
  let '(ops, buf', r) := spi_send_pixels n buf px in
  r = Ok tt /\
  concat (spi_writes ops) = concat px /\
  all_spi ops /\
  (forall dc, spi_wire dc ops = map (pair dc) (concat px)) /\
  length buf' = length buf /\
  Forall (fun w => Z.of_nat (length w) <= cap * n /\ Z.of_nat (length w) mod n = 0)
         (spi_writes ops) /\
  count_spi ops = Z.of_nat (length px) / cap + 1.
Proof. exact spi_pixels_spec. Qed.

(* the `assert!(self.buffer.len() >= N)`: a buffer smaller than one pixel panics before any write *)
Theorem C06_spi_pixels_small_buffer_panics : forall n buf px,
  Z.of_nat (length buf) < n -> spi_send_pixels n buf px = ([], buf, Panic).
Proof. exact spi_pixels_small_buffer_panics. Qed.

(* send_repeated_pixel on the fixed tree: same guarantees, for every u32 count including 0;
   ceil(count / min(count, cap)) writes *)
Theorem C06_spi_repeat_spec : forall n buf pixel count,
  1 <= n -> n <= Z.of_nat (length buf) ->
  Z.of_nat (length pixel) = n -> 0 <= count < 2 ^ 32 ->
  let cap := Z.of_nat (length buf) / n in
  cap < 2 ^ 32 ->
  let fc := Z.min count cap in
  let '(ops, buf', r) := spi_send_repeated true n buf pixel count in
  r = Ok tt /\
  concat (spi_writes ops) = concat (repeat pixel (Z.to_nat count)) /\
  all_spi ops /\
  (forall dc, spi_wire dc ops = map (pair dc) (concat (repeat pixel (Z.to_nat count)))) /\
  length buf' = length buf /\
  Forall (fun w => Z.of_nat (length w) <= cap * n /\ Z.of_nat (length w) mod n = 0)
         (spi_writes ops) /\
  count_spi ops = (if count =? 0 then 0 else (count + fc - 1) / fc).
Proof. exact spi_repeat_spec. Qed.

(* the pinned tree (finding F2): send_repeated_pixel(_, 0) never returns *)
Theorem C06_spi_repeat_pinned_diverges : forall n buf pixel,
  1 <= n -> n <= Z.of_nat (length buf) ->
  snd (spi_send_repeated false n buf pixel 0) = Diverge.
Proof. exact spi_repeat_pinned_diverges. Qed.

(* why `cap < 2^32` is assumed for the repeat function: `(len / N) as u32` truncates, a buffer of
   exactly 2^32 pixels makes fill_count 0 and the loop endless even on the fixed tree *)
Theorem C06_spi_repeat_huge_buffer_diverges : forall buf x,
  Z.of_nat (length buf) = 2 ^ 32 ->
  snd (spi_send_repeated true 1 buf [x] 1) = Diverge.
Proof. exact spi_repeat_huge_buffer_diverges. Qed.

(* transparency and DC discipline for a whole L1 trace: the panel sees exactly the bytes of the
   trace, the instruction bytes with DC low and every other byte with DC high, provided DC starts
   high or the trace starts with a command (which sets DC itself) *)
Theorem C06_spi_run_wire : forall n buf t dc0,
  1 <= n -> n <= Z.of_nat (length buf) -> Z.of_nat (length buf) / n < 2 ^ 32 ->
  Forall (event_pixels_wf n) t ->
  (dc0 = true \/ exists op args t', t = ECmd op args :: t') ->
  let '(ops, buf', r) := spi_run true n buf t in
  r = Ok tt /\ spi_wire dc0 ops = wire_of t /\ length buf' = length buf.
Proof. exact spi_run_wire. Qed.

(* number of SPI transactions against the number of bytes sent (used by C20) *)
Theorem C06_spi_transactions_bound : forall n buf,
  1 <= n -> n <= Z.of_nat (length buf) ->
  let cap := Z.of_nat (length buf) / n in
  (forall px, Forall (fun p => Z.of_nat (length p) = n) px ->
     let '(ops, _, _) := spi_send_pixels n buf px in
     count_spi ops <= Z.of_nat (length (concat px)) / (cap * n) + 1) /\
  (cap < 2 ^ 32 ->
   forall pixel count, Z.of_nat (length pixel) = n -> 0 <= count < 2 ^ 32 ->
     let '(ops, _, _) := spi_send_repeated true n buf pixel count in
     count_spi ops <= (count * n) / (cap * n) + 1).
Proof. exact spi_transactions_bound. Qed.

(* ---- non-vacuity: 2-byte pixels, a 7-byte buffer full of stale 0xA5 (cap = 3) ---- *)
Example C06_ex_pixels_4 :
  let '(ops, buf', r) := spi_send_pixels 2 [165;165;165;165;165;165;165] [[1;2];[3;4];[5;6];[7;8]] in
  spi_writes ops = [[1;2;3;4;5;6]; [7;8]] /\ buf' = [7;8;3;4;5;6;165] /\ r = Ok tt.
Proof. vm_compute. auto. Qed.

(* an exact multiple of the capacity ends with an empty write *)
Example C06_ex_pixels_3 :
  let '(ops, buf', r) := spi_send_pixels 2 [165;165;165;165;165;165;165] [[1;2];[3;4];[5;6]] in
  spi_writes ops = [[1;2;3;4;5;6]; []] /\ buf' = [1;2;3;4;5;6;165] /\ r = Ok tt.
Proof. vm_compute. auto. Qed.

Example C06_ex_pixels_0 :
  spi_send_pixels 2 [165;165;165;165;165;165;165] [] = ([OSpi []], [165;165;165;165;165;165;165], Ok tt).
Proof. vm_compute. reflexivity. Qed.

Example C06_ex_pixels_panic :
  spi_send_pixels 2 [165] [[1;2]] = ([], [165], Panic).
Proof. vm_compute. reflexivity. Qed.

(* count 7, cap 3: two full writes and a remainder of one pixel *)
Example C06_ex_repeat_7 :
  let '(ops, buf', r) := spi_send_repeated true 2 [165;165;165;165;165;165;165] [1;2] 7 in
  spi_writes ops = [[1;2;1;2;1;2]; [1;2;1;2;1;2]; [1;2]] /\ buf' = [1;2;1;2;1;2;165] /\ r = Ok tt /\
  count_spi ops = 3.
Proof. vm_compute. auto. Qed.

Example C06_ex_repeat_2 :
  spi_send_repeated true 2 [165;165;165;165;165;165;165] [1;2] 2
  = ([OSpi [1;2;1;2]], [1;2;1;2;165;165;165], Ok tt).
Proof. vm_compute. reflexivity. Qed.

Example C06_ex_repeat_0 :
  spi_send_repeated true 2 [165;165;165;165;165;165;165] [1;2] 0
    = ([], [165;165;165;165;165;165;165], Ok tt) /\
  snd (spi_send_repeated false 2 [165;165;165;165;165;165;165] [1;2] 0) = Diverge.
Proof. vm_compute. auto. Qed.

(* a trace: command, pixels, repeat, with DC starting low *)
Example C06_ex_run :
  let t := [ECmd 44 [9]; EDelay 5; EPixels [[1;2];[3;4]]; ERepeat [5;6] 2] in
  let '(ops, _, r) := spi_run true 2 [165;165;165;165;165;165;165] t in
  r = Ok tt /\
  spi_wire false ops = [(false,44); (true,9); (true,1); (true,2); (true,3); (true,4);
                        (true,5); (true,6); (true,5); (true,6)] /\
  spi_wire false ops = wire_of t.
Proof. vm_compute. auto. Qed.
