(* C18 — DCS command types serialise to their MIPI opcode and big-endian parameters. *)
Require Import Model.Base Model.Orient Model.Dcs Model.Events Proofs.DcsP Proofs.OpcodesP.
Require Import Gen.Consts.

(* every command type reports the MIPI-DCS opcode of its meaning (table committed in Proofs/DcsP.v) *)
Theorem C18_opcode : forall c, instruction c = mipi_opcode (meaning_of c).
Proof. exact instruction_is_mipi. Qed.

(* the model's opcode table is the one the translator read from the current source *)
Theorem C18_opcodes_from_source :
  model_basic_opcodes = gen_basic_opcodes /\ model_typed_opcodes = gen_typed_opcodes.
Proof. exact opcodes_match_source. Qed.

(* fill_params_buf: for every command and every buffer that is long enough, exactly the parameter
   bytes are written at the front, the count is reported, no byte beyond it is touched *)
Theorem C18_fill : forall c buf, (length (params c) <= length buf)%nat ->
  fill_params_buf c buf = Ok (Z.of_nat (length (params c)), params c ++ skipn (length (params c)) buf).
Proof. exact fill_params_spec. Qed.
(* ... and a too-short buffer is an index panic, never a partial silent write that is reported as success *)
Theorem C18_fill_short : forall c buf, (length buf < length (params c))%nat -> fill_params_buf c buf = Panic.
Proof. exact fill_params_short. Qed.

(* 16-bit quantities are most-significant byte first and decode back, for every u16 *)
Theorem C18_big_endian : forall v, 0 <= v <= 65535 ->
  be16 v = [v / 256; v mod 256] /\ de16 (v / 256) (v mod 256) = v /\ 0 <= v / 256 <= 255 /\ 0 <= v mod 256 <= 255.
Proof. exact be16_roundtrip. Qed.
Theorem C18_param_layout : forall s e t v b o,
  params (SetColumnAddress s e) = be16 s ++ be16 e /\ params (SetPageAddress s e) = be16 s ++ be16 e /\
  params (SetScrollArea t v b) = be16 t ++ be16 v ++ be16 b /\ params (SetScrollStart o) = be16 o.
Proof. intros; repeat split; reflexivity. Qed.

(* write_command puts exactly opcode + parameter bytes on the bus; write_raw exactly what it is given *)
Theorem C18_write_command : forall c, write_command c = Ok (ECmd (instruction c) (params c)).
Proof. exact write_command_spec. Qed.
Theorem C18_write_raw : forall i ps, write_raw i ps = ECmd i ps.
Proof. reflexivity. Qed.

Example C18_ex : write_command (SetColumnAddress 258 65535) = Ok (ECmd 0x2A [1; 2; 255; 255])
  /\ fill_params_buf (SetScrollArea 1 2 3) [9;9;9;9;9;9;9] = Ok (6, [0;1;0;2;0;3;9]).
Proof. vm_compute. auto. Qed.
