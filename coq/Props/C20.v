(* C20 — protocol overhead: a solid fill, contiguous fill or clear uses exactly one address-window
   set-up per call; with batching enabled draw_iter sends horizontally adjacent same-row pixels
   supplied left to right as bursts, a long run being cut only at the driver's own row capacity
   (at least two pixels), so it never needs more window set-ups than runs-split-at-capacity and
   never more than one per in-bounds pixel; the SPI transport sends a burst of b bytes in at most
   floor(b / usable buffer bytes) + 1 bus transactions.
   Statements only; proofs in Proofs/OverheadP.v (on top of BatchP / ProgramP / SpiP). *)
Require Import Model.Base Model.Orient Model.Dcs Model.Events Model.Builder Model.Rect Model.Batch Model.Display
               Model.Spi.
Require Import Oracle.Spec Oracle.Controller Oracle.DrawSpec.
Require Import Proofs.DcsP Proofs.WindowP Proofs.CtlP Proofs.DrawP Proofs.ClipP Proofs.BatchP Proofs.OrientStateP
               Proofs.ProgramP Proofs.SpiP Proofs.OverheadP.
Require Import Gen.Consts.
Open Scope list_scope.
Open Scope Z_scope.

(* Vocabulary (definitions repeated from the files named, for the reader):
     count_ramwr t     (Oracle/DrawSpec.v)  number of write_memory_start (0x2C) commands in the L1
                                            trace t = number of address-window set-ups, since every
                                            drawing call is framed (CASET RASET RAMWR PIX)* (C08)
     in_bbox o q       (Model/Display.v)    pixel q lies in the logical bounding box (draw_iter's filter)
     visible r lw lh   (Proofs/ClipP.v)     rectangle r meets the lw x lh display in at least one point
     run_lengths ps    (Proofs/BatchP.v)    lengths of the maximal runs of ps in which each pixel is at
                                            (x + 1, y) of its predecessor
     ceil_div a b      (Proofs/BatchP.v)    (a + b - 1) / b on nat
     hrun x0 y col n   (Proofs/OverheadP.v) the n pixels (x0 + i, y, col i), i = 0 .. n-1
     valid_cfg c o     (Proofs/WindowP.v)   what Builder::init accepts (C09) *)

(* ---- fills and clear: exactly one window per call ---- *)

(* fill_solid and fill_contiguous with any embedded-graphics-valid rectangle (arbitrary position,
   possibly partly or wholly off-screen): the call returns Ok and sets up exactly one address window
   when some point of the rectangle is visible, and none (C02: the call is silent) otherwise.
   clear: exactly one. For fill_contiguous `rw r * rh r < 2^32` is the crate's own u32 pixel count. *)
Theorem C20_fill_one_window : forall (c : ctx) (st : dstate),
  valid_cfg c (d_opts st) ->
  let lw := fst (lsize (d_opts st)) in
  let lh := snd (lsize (d_opts st)) in
  (forall (r : rect) (col : Z), rect_valid r ->
     snd (fst (step c st (PFillSolid r col))) = ROk /\
     count_ramwr (fst (fst (step c st (PFillSolid r col)))) = if visible r lw lh then 1 else 0) /\
  (forall (r : rect) (cs : list Z), rect_valid r -> rw r * rh r < 2 ^ 32 ->
     snd (fst (step c st (PFillContig r cs))) = ROk /\
     count_ramwr (fst (fst (step c st (PFillContig r cs)))) = if visible r lw lh then 1 else 0) /\
  (forall col : Z,
     snd (fst (step c st (PClear col))) = ROk /\
     count_ramwr (fst (fst (step c st (PClear col)))) = 1).
Proof. exact fill_one_window. Qed.

(* the same through the C08 statement (all drawing entry points at once, well-formed arguments) *)
Theorem C20_fill_one_window_op : forall c st (op : pop),
  valid_cfg c (d_opts st) -> (1 <= c_rowcap c)%nat -> (c_rowcap c <= c_blockcap c)%nat ->
  op_wf (d_opts st) op ->
  let t := fst (fst (step c st op)) in
  let lw := fst (lsize (d_opts st)) in
  let lh := snd (lsize (d_opts st)) in
  match op with
  | PSetPixel _ _ _ | PSetPixels _ _ _ _ _ | PClear _ => count_ramwr t = 1
  | PFillContig r _ | PFillContigGen r _ | PFillSolid r _ => count_ramwr t = if visible r lw lh then 1 else 0
  | PDrawIter ps =>
      0 <= count_ramwr t <= Z.of_nat (List.length (filter (in_bbox (d_opts st)) ps)) /\
      (c_batch c = false -> count_ramwr t = Z.of_nat (List.length (filter (in_bbox (d_opts st)) ps)))
  | _ => True
  end.
Proof. exact step_ramwr_count. Qed.

(* ---- draw_iter with the batch feature ---- *)

(* ANY pixel list (arbitrary coordinates, any order): let fs be the in-bounds pixels in the order
   supplied. The number of address-window set-ups of the call is at most the sum, over the maximal
   left-to-right same-row runs of fs, of ceil(run length / row capacity) — a run is cut only at
   the row capacity — and at most the number of in-bounds pixels. *)
Theorem C20_draw_iter_runs : forall (c : ctx) (st : dstate) (ps : list pixel),
  valid_cfg c (d_opts st) -> (1 <= c_rowcap c)%nat -> (c_rowcap c <= c_blockcap c)%nat ->
  c_batch c = true ->
  let fs := filter (in_bbox (d_opts st)) ps in
  let t := fst (fst (step c st (PDrawIter ps))) in
  count_ramwr t <= Z.of_nat (list_sum (map (fun l => ceil_div l (c_rowcap c)) (run_lengths fs))) /\
  count_ramwr t <= Z.of_nat (List.length fs).
Proof. exact draw_iter_windows_runs. Qed.

(* the same for a driver built with exactly the crate's MAX_ROW_SIZE / MAX_BLOCK_SIZE: no
   hypothesis on the capacities is left *)
Theorem C20_draw_iter_runs_crate : forall (c : ctx) (st : dstate) (ps : list pixel),
  valid_cfg c (d_opts st) ->
  c_rowcap c = Z.to_nat gen_MAX_ROW_SIZE -> c_blockcap c = Z.to_nat gen_MAX_BLOCK_SIZE ->
  c_batch c = true ->
  let fs := filter (in_bbox (d_opts st)) ps in
  let t := fst (fst (step c st (PDrawIter ps))) in
  count_ramwr t <= Z.of_nat (list_sum (map (fun l => ceil_div l (Z.to_nat gen_MAX_ROW_SIZE)) (run_lengths fs))) /\
  count_ramwr t <= Z.of_nat (List.length fs).
Proof. exact draw_iter_windows_runs_gen. Qed.

(* one run of n >= 1 adjacent pixels of one row, supplied left to right, inside the display: none
   is filtered out, it is a single run, and it costs at most ceil(n / row capacity) windows *)
Theorem C20_single_run : forall (c : ctx) (st : dstate) (x0 y : Z) (col : nat -> Z) (n : nat),
  valid_cfg c (d_opts st) -> (1 <= c_rowcap c)%nat -> (c_rowcap c <= c_blockcap c)%nat ->
  c_batch c = true ->
  (1 <= n)%nat ->
  0 <= x0 -> x0 + Z.of_nat n <= fst (lsize (d_opts st)) -> 0 <= y < snd (lsize (d_opts st)) ->
  let fs := hrun x0 y col n in
  filter (in_bbox (d_opts st)) fs = fs /\
  run_lengths fs = [n] /\
  count_ramwr (fst (fst (step c st (PDrawIter fs)))) <= Z.of_nat (ceil_div n (c_rowcap c)).
Proof. exact single_run_bursts. Qed.

(* the driver's own capacities (Gen/Consts.v, regenerated from src/batch.rs): a row holds at least
   two pixels and a block at least a row — also the side conditions of the theorems above *)
Theorem C20_capacity :
  2 <= gen_MAX_ROW_SIZE /\ gen_MAX_ROW_SIZE <= gen_MAX_BLOCK_SIZE /\
  (2 <= Z.to_nat gen_MAX_ROW_SIZE)%nat /\ (Z.to_nat gen_MAX_ROW_SIZE <= Z.to_nat gen_MAX_BLOCK_SIZE)%nat.
Proof. exact capacity_at_least_two. Qed.

(* the row stage of the batcher IS the greedy decomposition: for pixels with coordinates in
   0 .. 65534 (all that survive draw_iter's filter) the number of rows RowIterator emits equals the
   sum over maximal runs of ceil(run / cap); BlockIterator then only merges rows *)
Theorem C20_rows_greedy : forall (cap : nat) (ps : list pixel),
  (1 <= cap)%nat -> Forall in_range ps ->
  List.length (rows_of cap ps) = list_sum (map (fun l => ceil_div l cap) (run_lengths ps)).
Proof. exact rows_count_runs. Qed.

Theorem C20_blocks_le_rows : forall (md : mode) (bcap : nat) (rs : list prow),
  (List.length (fst (blocks_of md bcap rs)) <= List.length rs)%nat.
Proof. exact blocks_count_le. Qed.

(* ---- SPI transport ---- *)

(* n = bytes per pixel, buf = the staging buffer, cap = length buf / n pixels per transaction, so
   cap * n is the usable part of the buffer in bytes. send_pixels of a burst of pixels: exactly
   pixels / cap + 1 transactions, which is at most bytes / (cap * n) + 1; send_repeated_pixel of
   `count` pixels (count * n bytes): at most bytes / (cap * n) + 1. count_spi counts SPI writes. *)
Theorem C20_spi_transactions : forall n buf,
  1 <= n -> n <= Z.of_nat (List.length buf) ->
  let cap := Z.of_nat (List.length buf) / n in
  (forall px, Forall (fun p => Z.of_nat (List.length p) = n) px ->
     let '(ops, _, _) := spi_send_pixels n buf px in
     count_spi ops = Z.of_nat (List.length px) / cap + 1 /\
     count_spi ops <= Z.of_nat (List.length (concat px)) / (cap * n) + 1) /\
  (cap < 2 ^ 32 ->
   forall pixel count, Z.of_nat (List.length pixel) = n -> 0 <= count < 2 ^ 32 ->
     let '(ops, _, _) := spi_send_repeated true n buf pixel count in
     count_spi ops <= (count * n) / (cap * n) + 1).
Proof. exact spi_burst_transactions. Qed.

(* ---- non-vacuity ---- *)

(* a 120-pixel run with row capacity 50: one run, three rows (50 + 50 + 20) *)
Example C20_ex_run_120 :
  run_lengths (hrun 7 3 (fun i => Z.of_nat i) 120) = [120%nat] /\
  list_sum (map (fun l => ceil_div l 50) [120%nat]) = 3%nat /\
  map (fun r => List.length (rcs r)) (rows_of 50 (hrun 7 3 (fun i => Z.of_nat i) 120)) = [50; 50; 20]%nat.
Proof. vm_compute. repeat split. Qed.

(* run_lengths separates rows, gaps and right-to-left order *)
Example C20_ex_run_lengths :
  run_lengths [(0, 0, 1); (1, 0, 2); (2, 0, 3); (0, 1, 4); (1, 1, 5); (5, 1, 6); (4, 1, 7)]
  = [3; 2; 1; 1]%nat.
Proof. vm_compute. reflexivity. Qed.

(* a 240 x 320 panel, the crate's capacities *)
Definition ex_c b := {| c_md := Debug; c_batch := b; c_fw := 240; c_fh := 320; c_enc := fun v => [v];
                        c_rowcap := 50; c_blockcap := 100 |}.
Definition ex_o := {| o_bgr := false; o_orient := {| rotn := D0; mir := false |}; o_inv := false;
                      o_btt := false; o_rtl := false; o_w := 240; o_h := 320; o_ox := 0; o_oy := 0 |}.
Definition ex_st := fresh_state ex_o.

Example C20_ex_hyps : forall b,
  valid_cfg (ex_c b) (d_opts ex_st) /\ (1 <= c_rowcap (ex_c b))%nat /\
  (c_rowcap (ex_c b) <= c_blockcap (ex_c b))%nat.
Proof.
  intros b. split; [unfold valid_cfg; cbn; lia|]. split; cbn; lia.
Qed.

(* the example context carries the capacities currently generated from src/batch.rs (this example,
   and only this one, has to be updated if the crate changes them) *)
Example C20_ex_crate_caps : forall b,
  c_rowcap (ex_c b) = Z.to_nat gen_MAX_ROW_SIZE /\ c_blockcap (ex_c b) = Z.to_nat gen_MAX_BLOCK_SIZE.
Proof. intros b. split; vm_compute; reflexivity. Qed.

(* the 120-pixel run: 3 windows with batching (= the bound), 120 without *)
Example C20_ex_step_run :
  count_ramwr (fst (fst (step (ex_c true) ex_st (PDrawIter (hrun 7 3 (fun i => Z.of_nat i) 120))))) = 3 /\
  snd (fst (step (ex_c true) ex_st (PDrawIter (hrun 7 3 (fun i => Z.of_nat i) 120)))) = ROk /\
  count_ramwr (fst (fst (step (ex_c false) ex_st (PDrawIter (hrun 7 3 (fun i => Z.of_nat i) 120))))) = 120.
Proof. vm_compute. repeat split. Qed.

(* the bound is not always attained: two stacked 3-pixel rows are two runs but ONE block; pixels
   outside the display are dropped first and cost nothing *)
Example C20_ex_step_block :
  let ps := [(0, 0, 1); (1, 0, 2); (2, 0, 3); (-1, 0, 9); (0, 1, 4); (1, 1, 5); (2, 1, 6); (240, 1, 9)] in
  run_lengths (filter (in_bbox (d_opts ex_st)) ps) = [3; 3]%nat /\
  count_ramwr (fst (fst (step (ex_c true) ex_st (PDrawIter ps)))) = 1 /\
  count_ramwr (fst (fst (step (ex_c false) ex_st (PDrawIter ps)))) = 6.
Proof. vm_compute. repeat split. Qed.

(* fills: one window when visible, none when not; clear: one *)
Example C20_ex_fills :
  map (fun op => count_ramwr (fst (fst (step (ex_c true) ex_st op))))
      [ PFillSolid {| rx := -5; ry := 300; rw := 50; rh := 50 |} 1;
        PFillSolid {| rx := 240; ry := 0; rw := 5; rh := 5 |} 2;
        PFillContig {| rx := 10; ry := 10; rw := 3; rh := 2 |} [1; 2; 3; 4; 5; 6];
        PFillContig {| rx := -9; ry := 0; rw := 3; rh := 2 |} [1; 2; 3; 4; 5; 6];
        PClear 7 ]
  = [1; 0; 1; 0; 1].
Proof. vm_compute. reflexivity. Qed.

(* SPI: 2-byte pixels, a 7-byte buffer (3 pixels = 6 usable bytes): 4 pixels = 8 bytes go out in
   8 / 6 + 1 = 2 transactions; 7 repeated pixels = 14 bytes in 14 / 6 + 1 = 3 *)
Example C20_ex_spi :
  (let '(ops, _, _) := spi_send_pixels 2 [0; 0; 0; 0; 0; 0; 0] [[1; 2]; [3; 4]; [5; 6]; [7; 8]] in
   count_spi ops = 2) /\
  (let '(ops, _, _) := spi_send_repeated true 2 [0; 0; 0; 0; 0; 0; 0] [1; 2] 7 in count_spi ops = 3) /\
  8 / (3 * 2) + 1 = 2 /\ 14 / (3 * 2) + 1 = 3.
Proof. vm_compute. repeat split. Qed.

Print Assumptions C20_fill_one_window.
Print Assumptions C20_fill_one_window_op.
Print Assumptions C20_draw_iter_runs.
Print Assumptions C20_draw_iter_runs_crate.
Print Assumptions C20_single_run.
Print Assumptions C20_capacity.
Print Assumptions C20_rows_greedy.
Print Assumptions C20_blocks_le_rows.
Print Assumptions C20_spi_transactions.
