(* C05 — for every value of every supported colour type, the words placed on the bus for a pixel are
   exactly the encoding a MIPI-DCS controller expects for the interface pixel format that the
   model's initialisation announced. Statements only; proofs in Proofs/ColorP.v.

   Colours are raw integers: Rgb565 raw = raw565 r g b = r*2048 + g*32 + b (r, b < 32, g < 64 — the
   RawU16 storage of embedded-graphics); Rgb666 raw = raw666 r g b = r*4096 + g*64 + b (all < 64).
   enc565_8 / enc565_16 / enc666_8 model rgb565_to_bytes / rgb565_to_u16 / rgb666_to_bytes of
   src/interface.rs; dec565_8 / dec565_16 / dec666_8 are what a MIPI-DCS controller reads back from
   the words under COLMOD 0x55 (two bytes or one 16-bit word) and 0x66 (three bytes, D7..D2). *)
Require Import Model.Base Model.Orient Model.Dcs Model.Events Model.InitLang Model.Color.
Require Import Model.Spi Model.Parallel.
Require Import Oracle.InitSpec.
Require Import Proofs.ColorP.

(* 1. Rgb565 over an 8-bit path: two bytes, the most significant first; byte 1 = R4..0 G5..3,
      byte 2 = G2..0 B4..0; decoding returns the drawn colour *)
Theorem C05_rgb565_bytes : forall r g b,
  0 <= r < 32 -> 0 <= g < 64 -> 0 <= b < 32 ->
  let raw := raw565 r g b in
  0 <= raw < 65536 /\
  enc565_8 raw = [raw / 256; raw mod 256] /\
  0 <= raw / 256 <= 255 /\ 0 <= raw mod 256 <= 255 /\
  raw = 256 * (raw / 256) + raw mod 256 /\
  raw / 256 = 8 * r + g / 8 /\
  raw mod 256 = 32 * (g mod 8) + b /\
  dec565_8 (enc565_8 raw) = Some (r, g, b).
Proof. exact rgb565_bytes. Qed.

(* 2. Rgb565 over a 16-bit bus: one word, the raw value (R in D15..11, G in D10..5, B in D4..0) *)
Theorem C05_rgb565_word : forall r g b,
  0 <= r < 32 -> 0 <= g < 64 -> 0 <= b < 32 ->
  let raw := raw565 r g b in
  enc565_16 raw = [raw] /\
  0 <= raw <= 65535 /\
  dec565_16 (enc565_16 raw) = Some (r, g, b).
Proof. exact rgb565_word. Qed.

(* ... and that word is the byte pair of (1), most significant byte first *)
Theorem C05_rgb565_word_is_byte_pair : forall raw hi lo,
  enc565_8 raw = [hi; lo] -> enc565_16 raw = [256 * hi + lo].
Proof. exact rgb565_word_is_byte_pair. Qed.

(* 3. Rgb666: three bytes R, G, B, the six bits left-aligned (low two bits zero) *)
Theorem C05_rgb666_bytes : forall r g b,
  0 <= r < 64 -> 0 <= g < 64 -> 0 <= b < 64 ->
  let raw := raw666 r g b in
  0 <= raw < 262144 /\
  enc666_8 raw = [4 * r; 4 * g; 4 * b] /\
  (0 <= 4 * r <= 255 /\ (4 * r) mod 4 = 0) /\
  (0 <= 4 * g <= 255 /\ (4 * g) mod 4 = 0) /\
  (0 <= 4 * b <= 255 /\ (4 * b) mod 4 = 0) /\
  dec666_8 (enc666_8 raw) = Some (r, g, b).
Proof. exact rgb666_bytes. Qed.

(* 4. every raw value is the composition of its in-range components, so (1)-(3) cover all 65,536
      Rgb565 and all 262,144 Rgb666 values *)
Theorem C05_raw565_decompose : forall raw, 0 <= raw < 65536 ->
  let r := raw / 2048 in let g := (raw / 32) mod 64 in let b := raw mod 32 in
  0 <= r < 32 /\ 0 <= g < 64 /\ 0 <= b < 32 /\ raw = raw565 r g b.
Proof. exact raw565_decompose. Qed.

Theorem C05_raw666_decompose : forall raw, 0 <= raw < 262144 ->
  let r := raw / 4096 in let g := (raw / 64) mod 64 in let b := raw mod 64 in
  0 <= r < 64 /\ 0 <= g < 64 /\ 0 <= b < 64 /\ raw = raw666 r g b.
Proof. exact raw666_decompose. Qed.

Theorem C05_raw565_components : forall r g b,
  0 <= r < 32 -> 0 <= g < 64 -> 0 <= b < 32 ->
  raw565 r g b / 2048 = r /\ (raw565 r g b / 32) mod 64 = g /\ raw565 r g b mod 32 = b.
Proof. exact raw565_components. Qed.

Theorem C05_raw666_components : forall r g b,
  0 <= r < 64 -> 0 <= g < 64 -> 0 <= b < 64 ->
  raw666 r g b / 4096 = r /\ (raw666 r g b / 64) mod 64 = g /\ raw666 r g b mod 64 = b.
Proof. exact raw666_components. Qed.

(* (1)-(3) restated on the raw value, for all of them *)
Theorem C05_rgb565_all_raw : forall raw, 0 <= raw < 65536 ->
  let r := raw / 2048 in let g := (raw / 32) mod 64 in let b := raw mod 32 in
  enc565_8 raw = [8 * r + g / 8; 32 * (g mod 8) + b] /\
  0 <= 8 * r + g / 8 <= 255 /\ 0 <= 32 * (g mod 8) + b <= 255 /\
  raw = 256 * (8 * r + g / 8) + (32 * (g mod 8) + b) /\
  dec565_8 (enc565_8 raw) = Some (r, g, b) /\
  enc565_16 raw = [raw] /\
  dec565_16 (enc565_16 raw) = Some (r, g, b).
Proof. exact rgb565_all_raw. Qed.

Theorem C05_rgb666_all_raw : forall raw, 0 <= raw < 262144 ->
  let r := raw / 4096 in let g := (raw / 64) mod 64 in let b := raw mod 64 in
  enc666_8 raw = [4 * r; 4 * g; 4 * b] /\
  Forall (fun x => 0 <= x <= 255 /\ x mod 4 = 0) (enc666_8 raw) /\
  dec666_8 (enc666_8 raw) = Some (r, g, b).
Proof. exact rgb666_all_raw. Qed.

(* 5. the announced format and the words per pixel agree: from_rgb_color gives 16 / 18 bpp, the
      COLMOD parameter is 0x55 / 0x66 (what the init oracle demands), and a pixel is 2 bytes or one
      16-bit word / 3 bytes *)
Theorem C05_colmod_matches_words :
  bpp_of_bits (color_bits CRgb565) = Ok Sixteen /\
  bpp_of_bits (color_bits CRgb666) = Ok Eighteen /\
  pixel_format_byte Sixteen Sixteen = 0x55 /\ colmod_of CRgb565 = 0x55 /\
  pixel_format_byte Eighteen Eighteen = 0x66 /\ colmod_of CRgb666 = 0x66 /\
  (forall raw, length (enc_of CRgb565 false raw) = 2%nat) /\
  (forall raw, length (enc_of CRgb565 true raw) = 1%nat) /\
  (forall w raw, length (enc_of CRgb666 w raw) = 3%nat).
Proof. exact colmod_matches_words. Qed.

(* the init statement every model uses for COLMOD sends exactly that byte *)
Theorem C05_init_announces_colmod : forall col o,
  stmt_event col o (ICmdPixelFormat PfFromColor) = Ok (Some (ECmd 0x3A [colmod_of col])).
Proof. exact init_announces_colmod. Qed.

Theorem C05_announced_bits_cover_words :
  (forall raw, Z.of_nat (length (enc_of CRgb565 false raw)) * 8 = color_bits CRgb565) /\
  (forall raw, Z.of_nat (length (enc_of CRgb565 true raw)) * 16 = color_bits CRgb565) /\
  (forall w raw, Z.of_nat (length (enc_of CRgb666 w raw)) * 6 = color_bits CRgb666).
Proof. exact announced_bits_cover_words. Qed.

(* 6. a solid fill encodes a colour identically to a per-pixel stream.
      (a) what the panel must see for send_repeated_pixel(p, c) is what it must see for
          send_pixels of c copies of p: serial wire and parallel latch sequence *)
Theorem C05_repeat_eq_stream_wire : forall p c,
  wire_of_event (ERepeat p c) = wire_of_event (EPixels (repeat p (Z.to_nat c))).
Proof. exact repeat_eq_stream_wire. Qed.

Theorem C05_repeat_eq_stream_latch : forall p c,
  latch_of_event (ERepeat p c) = latch_of_event (EPixels (repeat p (Z.to_nat c))).
Proof. exact repeat_eq_stream_latch. Qed.

(*    (b) with the colour conversion: converting once and repeating = converting every pixel *)
Theorem C05_fill_eq_stream_encoded : forall col w raw c,
  wire_of_event (ERepeat (enc_of col w raw) c)
    = wire_of_event (EPixels (map (enc_of col w) (repeat raw (Z.to_nat c)))) /\
  latch_of_event (ERepeat (enc_of col w raw) c)
    = latch_of_event (EPixels (map (enc_of col w) (repeat raw (Z.to_nat c)))).
Proof. exact fill_eq_stream_encoded. Qed.

(*    (c) on the SPI pins (fixed tree, hypotheses of C06): both calls return Ok and put the same
          bytes on the wire at the same DC level, whatever stale content the buffer had *)
Theorem C05_spi_repeat_eq_stream : forall n buf pixel count,
  1 <= n -> n <= Z.of_nat (length buf) ->
  Z.of_nat (length pixel) = n -> 0 <= count < 2 ^ 32 ->
  Z.of_nat (length buf) / n < 2 ^ 32 ->
  snd (spi_send_repeated true n buf pixel count) = Ok tt /\
  snd (spi_send_pixels n buf (repeat pixel (Z.to_nat count))) = Ok tt /\
  forall dc,
    spi_wire dc (fst (fst (spi_send_repeated true n buf pixel count)))
    = spi_wire dc (fst (fst (spi_send_pixels n buf (repeat pixel (Z.to_nat count))))).
Proof. exact spi_repeat_eq_stream. Qed.

(* 7. exhaustive sweep: every raw value against a shift-and-mask statement of the formats
      (Proofs/ColorP.v: chk565 — byte 1 = (R << 3) | (G >> 3), byte 2 = ((G & 7) << 5) | B, word =
      (R << 11) | (G << 5) | B, bytes in 0..255, both decoders return (R, G, B); chk666 — bytes =
      R << 2, G << 2, B << 2, in 0..255 with (x & 3) = 0, decoder returns (R, G, B)) *)
Theorem C05_rgb565_bitlevel_all : forall raw, 0 <= raw < 65536 -> chk565 raw = true.
Proof. exact rgb565_bitlevel_all. Qed.

Theorem C05_rgb666_bitlevel_all : forall raw, 0 <= raw < 262144 -> chk666 raw = true.
Proof. exact rgb666_bitlevel_all. Qed.

(* ---- non-vacuity ---- *)
(* Rgb565 red (31,0,0) = 0xF800 -> F8 00 ; one word 0xF800 *)
Example C05_ex_565_red :
  raw565 31 0 0 = 0xF800 /\ enc565_8 (raw565 31 0 0) = [248; 0] /\ enc565_16 (raw565 31 0 0) = [63488] /\
  dec565_8 [248; 0] = Some (31, 0, 0) /\ dec565_16 [63488] = Some (31, 0, 0).
Proof. vm_compute. repeat split. Qed.

(* green (0,63,0) = 0x07E0 straddles the byte boundary; blue (0,0,31) = 0x001F *)
Example C05_ex_565_green_blue :
  enc565_8 (raw565 0 63 0) = [7; 224] /\ enc565_8 (raw565 0 0 31) = [0; 31] /\
  dec565_8 [7; 224] = Some (0, 63, 0) /\ dec565_8 [0; 31] = Some (0, 0, 31).
Proof. vm_compute. repeat split. Qed.

(* a mixed value: (18, 52, 22) = 0x9696 -> 96 96 *)
Example C05_ex_565_mixed :
  raw565 18 52 22 = 0x9696 /\ enc565_8 (raw565 18 52 22) = [150; 150] /\
  dec565_8 (enc565_8 (raw565 18 52 22)) = Some (18, 52, 22).
Proof. vm_compute. repeat split. Qed.

Example C05_ex_666 :
  enc666_8 (raw666 63 1 2) = [252; 4; 8] /\ dec666_8 [252; 4; 8] = Some (63, 1, 2) /\
  enc666_8 (raw666 0 0 0) = [0; 0; 0] /\ enc666_8 (raw666 63 63 63) = [252; 252; 252].
Proof. vm_compute. repeat split. Qed.

(* the byte order matters: the little-endian pair decodes to a different colour *)
Example C05_ex_565_order_matters :
  dec565_8 [0; 248] = Some (0, 7, 24) /\ dec565_8 [0; 248] <> Some (31, 0, 0).
Proof. split; [vm_compute; reflexivity | vm_compute; discriminate]. Qed.

(* ... and so does the alignment: right-aligned six bits decode to a quarter of the value *)
Example C05_ex_666_alignment_matters :
  dec666_8 [63; 1; 2] = Some (15, 0, 0).
Proof. vm_compute. reflexivity. Qed.

Example C05_ex_colmod :
  stmt_event CRgb565 (mk_opts false {| rotn := D0; mir := false |} false false false)
             (ICmdPixelFormat PfFromColor) = Ok (Some (ECmd 58 [85])) /\
  stmt_event CRgb666 (mk_opts false {| rotn := D0; mir := false |} false false false)
             (ICmdPixelFormat PfFromColor) = Ok (Some (ECmd 58 [102])).
Proof. vm_compute. split; reflexivity. Qed.

(* a 3-pixel fill against a 3-pixel stream through the SPI transport with a 5-byte stale buffer *)
Example C05_ex_fill_vs_stream :
  let p := enc565_8 (raw565 31 0 0) in
  let buf := [165; 165; 165; 165; 165] in
  spi_wire true (fst (fst (spi_send_repeated true 2 buf p 3)))
    = [(true, 248); (true, 0); (true, 248); (true, 0); (true, 248); (true, 0)] /\
  spi_wire true (fst (fst (spi_send_pixels 2 buf [p; p; p])))
    = [(true, 248); (true, 0); (true, 248); (true, 0); (true, 248); (true, 0)].
Proof. vm_compute. split; reflexivity. Qed.
