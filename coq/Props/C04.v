(* C04 — fill_contiguous: colour k of the stream belongs to point k (row-major) of the REQUESTED
   rectangle; only the visible points are written, each with its own colour; a short stream leaves the
   rest untouched, surplus colours are ignored. Statements only; proofs in Proofs/ClipP.v (the
   TakeSkip / clipping arithmetic) and Proofs/ProgramP.v (what the controller decodes). *)
Require Import Model.Base Model.Orient Model.Dcs Model.Events Model.Builder Model.Rect Model.Batch Model.Display.
Require Import Oracle.Spec Oracle.Controller Oracle.DrawSpec.
Require Import Proofs.DcsP Proofs.WindowP Proofs.CtlP Proofs.DrawP Proofs.ClipP Proofs.BatchP Proofs.OrientStateP
               Proofs.ProgramP.
Open Scope Z_scope.

(* the intersection / skip / TakeSkip code, for ANY valid rectangle and any stream, in any build
   profile: one set_pixels on the visible window with the colours `clip_colors` selects — row j of the
   visible part takes stream indices ((vy0 - ry) + j) * rw + (vx0 - rx) ... + (vx1 - vx0) — or nothing *)
Theorem C04_clip_colors : forall (c : ctx) (o : opts) (a : rect) (lw lh : Z) (cs : list Z),
  rect_valid a -> 1 <= lw <= 65535 -> 1 <= lh <= 65535 ->
  lsize o = (lw, lh) -> rw a * rh a < 2 ^ 32 ->
  fill_contiguous c o a cs =
  (if visible a lw lh
   then set_pixels c o (vx0 a) (vy0 a) (vx1 a lw - 1) (vy1 a lh - 1) (clip_colors a lw lh cs)
   else wret tt).
Proof. exact fill_contiguous_clip. Qed.

(* those colours, laid row-major over the visible window (what the controller does with the burst),
   are the specification's rows: point (x, y) of the visible part gets stream colour
   (y - ry) * rw + (x - rx), as far as the first rw * rh colours of the stream last *)
Theorem C04_stream_rows : forall enc p o (a : rect) (lw lh : Z) (cs : list Z),
  rect_valid a ->
  zip_rows enc p o (vx0 a) (vy0 a) (Z.to_nat (vx1 a lw - 1 - vx0 a + 1)) (Z.to_nat (vy1 a lh - 1 - vy0 a + 1))
           (clip_colors a lw lh cs)
  = contig_rows enc p o a (vx0 a) (vx1 a lw) (vy0 a) (Z.to_nat (vy1 a lh - vy0 a)) (firstnZ (rw a * rh a) cs).
Proof. exact zip_rows_clip_colors. Qed.

(* end to end: the call returns Ok, the controller's history grows by exactly `spec_fill_contig`
   (Oracle/DrawSpec.v), no anomaly is flagged (the burst never overruns the window), one window iff
   something is visible *)
Theorem C04_placement : forall c st k (r : rect) (cs : list Z),
  valid_cfg c (d_opts st) -> madctl_ok st -> ctl_matches c (d_opts st) k ->
  rect_valid r -> rw r * rh r < 2 ^ 32 ->
  let o := d_opts st in
  let t := fst (fst (step c st (PFillContig r cs))) in
  snd (fst (step c st (PFillContig r cs))) = ROk /\
  writes (ctl_run k t) = writes k ++ spec_fill_contig (c_enc c) (panel_of o) (o_orient o) r cs /\
  k_flags (ctl_run k t) = k_flags k /\
  count_ramwr t = (if visible r (fst (lsize o)) (snd (lsize o)) then 1 else 0).
Proof. exact fill_contig_placement. Qed.

(* colours beyond the area are never used *)
Theorem C04_surplus_ignored : forall (a : rect) (lw lh : Z) (cs : list Z),
  rect_valid a ->
  clip_colors a lw lh cs = clip_colors a lw lh (firstnZ (rw a * rh a) cs).
Proof. exact clip_colors_surplus. Qed.

(* never more colours than the window holds *)
Theorem C04_burst_fits : forall (a : rect) (lw lh : Z) (cs : list Z),
  visible a lw lh = true ->
  Z.of_nat (length (clip_colors a lw lh cs)) <= (vx1 a lw - vx0 a) * (vy1 a lh - vy0 a).
Proof. exact clip_colors_length. Qed.

(* ---- non-vacuity. A 4 x 3 rectangle at (-2, -1) overlapping the top-left corner of a 100 x 50
   display at offset (3, 7), native orientation; colour k = k (the stream encodes its own index; 14
   colours for 12 points). Visible: columns 2..3 of rows 1..2, i.e. stream indices 6 7 10 11. ---- *)
Definition ex_c := {| c_md := Debug; c_batch := true; c_fw := 240; c_fh := 320; c_enc := fun v => [v];
                      c_rowcap := 50; c_blockcap := 100 |}.
Definition ex_o r m := {| o_bgr := false; o_orient := {| rotn := r; mir := m |}; o_inv := false;
                          o_btt := false; o_rtl := false; o_w := 100; o_h := 50; o_ox := 3; o_oy := 7 |}.
Definition ex_st r m := fresh_state (ex_o r m).
Definition ex_k r m := ctl_run (power_on 240 320) [ECmd 0x36 [madctl_of_opts (ex_o r m)]].
Definition ex_r := {| rx := -2; ry := -1; rw := 4; rh := 3 |}.

Example C04_ex_hyps : forall r m,
  valid_cfg ex_c (d_opts (ex_st r m)) /\ madctl_ok (ex_st r m) /\
  ctl_matches ex_c (d_opts (ex_st r m)) (ex_k r m) /\ rect_valid ex_r /\ rw ex_r * rh ex_r < 2 ^ 32.
Proof.
  intros r m.
  split; [unfold valid_cfg; cbn; lia|]. split; [reflexivity|].
  split; [unfold ctl_matches; destruct r, m; vm_compute; repeat split|].
  unfold rect_valid, ex_r. cbn [rx ry rw rh]. change (2 ^ 31) with 2147483648. change (2 ^ 32) with 4294967296. lia.
Qed.

Example C04_ex_corner :
  spec_op_writes (fun v => [v]) (panel_of (ex_o D0 false)) (o_orient (ex_o D0 false)) (PFillContigGen ex_r 14) =
  [WPx 3 7 [6]; WPx 4 7 [7]; WPx 3 8 [10]; WPx 4 8 [11]] /\
  writes (ctl_run (ex_k D0 false) (exec_trace ex_c (ex_st D0 false) [PFillContigGen ex_r 14])) =
  [WPx 3 7 [6]; WPx 4 7 [7]; WPx 3 8 [10]; WPx 4 8 [11]] /\
  clip_colors ex_r 100 50 (gen_colors 14) = [6; 7; 10; 11].
Proof. vm_compute. repeat split. Qed.

(* the same call in all eight orientations; a stream that ends inside the visible part (8 colours:
   indices 6 7 only); the fast path (nothing clipped) *)
Example C04_ex_all_orientations :
  forallb (fun r => forallb (fun m =>
    list_eqb wr_eqb
      (writes (ctl_run (ex_k r m) (exec_trace ex_c (ex_st r m)
                 [PFillContigGen ex_r 14; PFillContigGen ex_r 8; PFillContigGen {| rx := 1; ry := 1; rw := 3; rh := 2 |} 5])))
      (spec_prog_writes (fun v => [v]) (panel_of (ex_o r m)) (o_orient (ex_o r m))
                 [PFillContigGen ex_r 14; PFillContigGen ex_r 8; PFillContigGen {| rx := 1; ry := 1; rw := 3; rh := 2 |} 5]))
    [false; true]) [D0; D90; D180; D270] = true /\
  length (spec_prog_writes (fun v => [v]) (panel_of (ex_o D90 true)) (o_orient (ex_o D90 true))
            [PFillContigGen ex_r 14; PFillContigGen ex_r 8; PFillContigGen {| rx := 1; ry := 1; rw := 3; rh := 2 |} 5])
  = 11%nat.
Proof. vm_compute. split; reflexivity. Qed.

(* ---- the 16-bit-pointer variants of the private take / nth helpers (a separate code path that the test
   host never compiles; run differentially through source extraction in the harness) ---- *)
Require Import Model.Ptr16 Proofs.Ptr16P.

(* take_u32 (take_while with a counter) yields exactly the first `max` items, in Debug and Release, for
   every stream of fewer than 2^32 items; it consumes one item more than Iterator::take would (the first
   item that fails the test), which no caller can observe: fill_contiguous drops the iterator *)
Theorem C04_ptr16_take : forall md l max,
  0 <= max -> Z.of_nat (length l) < 2 ^ 32 ->
  take_u32_16 md l max = Ok (firstn (Z.to_nat max) l, skipn (S (Z.to_nat max)) l).
Proof. exact take_u32_16_spec. Qed.
Theorem C04_ptr16_take_same_items : forall md l max,
  0 <= max -> Z.of_nat (length l) < 2 ^ 32 ->
  exists left, take_u32_16 md l max = Ok (fst (take_u32_host l max), left).
Proof. exact take_u32_16_same_items. Qed.
(* nth_u32 (a counted loop of next()) is Iterator::nth, including what it leaves in the iterator *)
Theorem C04_ptr16_nth : forall l n, 0 <= n -> nth_u32_16 l n = nth_u32_host l n.
Proof. exact nth_u32_16_spec. Qed.
Example C04_ex_ptr16 : take_u32_16 Debug [1;2;3;4;5] 2 = Ok ([1;2], [4;5]) /\ nth_u32_16 [1;2;3;4;5] 2 = (Some 3, [4;5])
  /\ take_u32_16 Release [1;2] 5 = Ok ([1;2], []) /\ nth_u32_16 [1;2] 2 = (None, []).
Proof. vm_compute. auto. Qed.
