(* C09 — init accepts exactly the windows that fit, and rejects before touching hardware.
   Only statements, each closed by `exact`; proofs live in Proofs/BuilderP.v. *)
Require Import Model.Base Model.Orient Model.Dcs Model.Events Model.Builder Proofs.BuilderP.

(* for all 16-bit sizes, offsets and framebuffer sizes, in both build profiles: accepted exactly
   when the window fits, over the integers (no wrap-around) *)
Theorem C09_iff : forall md FW FH w h ox oy,
  u16 FW -> u16 FH -> u16 w -> u16 h -> u16 ox -> u16 oy ->
  (init_check md FW FH w h ox oy = Ok tt <->
   w <> 0 /\ h <> 0 /\ w <= FW /\ h <= FH /\ ox + w <= FW /\ oy + h <= FH).
Proof. exact init_check_iff. Qed.

(* otherwise: InvalidDisplaySize iff zero or oversize, else InvalidDisplayOffset *)
Theorem C09_taxonomy : forall md FW FH w h ox oy,
  u16 FW -> u16 FH -> u16 w -> u16 h -> u16 ox -> u16 oy ->
  ~ fits FW FH w h ox oy ->
  ((w = 0 \/ h = 0 \/ w > FW \/ h > FH) -> init_check md FW FH w h ox oy = Err (ECfg InvalidDisplaySize)) /\
  (~ (w = 0 \/ h = 0 \/ w > FW \/ h > FH) -> init_check md FW FH w h ox oy = Err (ECfg InvalidDisplayOffset)).
Proof. exact init_check_taxonomy. Qed.

(* no arithmetic panic, same verdict in debug and release *)
Theorem C09_no_panic : forall FW FH w h ox oy,
  u16 FW -> u16 FH -> u16 w -> u16 h -> u16 ox -> u16 oy ->
  init_check Debug FW FH w h ox oy = init_check Release FW FH w h ox oy /\
  init_check Debug FW FH w h ox oy <> Panic.
Proof. exact init_check_mode_indep. Qed.

(* a rejected configuration touches nothing: no reset-pin, delay or interface event, for every
   model init program and with or without reset pin *)
Theorem C09_no_side_effect : forall md FW FH rst o minit,
  init_check md FW FH (o_w o) (o_h o) (o_ox o) (o_oy o) <> Ok tt ->
  fst (builder_init md FW FH rst o minit) = [] /\
  is_ok (snd (builder_init md FW FH rst o minit)) = false.
Proof. exact builder_init_rejects_silently. Qed.

(* non-vacuity: the hypotheses are met by real configurations, at both ends of the range *)
Example C09_ex_accept : init_check Debug 240 320 100 50 3 7 = Ok tt /\ init_check Release 65535 65535 65535 65535 0 0 = Ok tt
  /\ init_check Debug 1 1 1 1 0 0 = Ok tt.
Proof. vm_compute. auto. Qed.
Example C09_ex_reject : init_check Debug 240 320 240 320 1 0 = Err (ECfg InvalidDisplayOffset)
  /\ init_check Release 65535 65535 65535 1 65535 0 = Err (ECfg InvalidDisplayOffset)
  /\ init_check Debug 240 320 0 5 0 0 = Err (ECfg InvalidDisplaySize).
Proof. vm_compute. auto. Qed.
