(* C11 — "For every built-in model, supported interface kind and option set, initialisation leaves the
   controller awake and switched on, with address mode equal to the encoding of the chosen colour order,
   orientation and refresh order, interface pixel format matching the model's colour type, colour
   inversion as chosen, and without writing any pixel memory; init does not return earlier than 120 ms
   after the sleep-out command. An interface kind the model cannot drive is refused with
   UnsupportedInterface before any model command is sent, and every model/interface pairing that is
   supported today stays supported."
   Statements only; proofs in Proofs/InitP.v. `gen_models` is regenerated from src/models/*.rs on every
   run (tools/rs2v.py), `ctl_run (power_on fw fh)` is the reference MIPI-DCS controller of
   Oracle/Controller.v, the boolean checkers are those of Oracle/InitSpec.v. *)
Require Import Model.Base Model.Orient Model.Dcs Model.Events Model.Builder Model.InitLang.
Require Import Oracle.Spec Oracle.Controller Oracle.InitSpec Gen.Models.
Require Import Proofs.OrientStateP Proofs.InitP.
From Coq Require Import String.
Open Scope Z_scope.
Open Scope list_scope.

(* the finite sweep itself: 14 models x 3 interface kinds x 256 option sets x reset pin or not *)
Theorem C11_sweep : init_sweep gen_models = true.
Proof. exact init_sweep_gen. Qed.

(* the tree has 14 built-in model types; framebuffer sizes fit u16 and are non-empty *)
Theorem C11_models_enumerated : List.length gen_models = 14%nat /\ model_dims_ok gen_models = true.
Proof. exact (conj gen_models_length dims_gen). Qed.

(* Model::init reads the options only through colour order, orientation, inversion and the two refresh
   orders: size and offset fields are irrelevant, so the 256 swept option sets cover every `opts` *)
Theorem C11_only_five_options : forall k col o p, run_init k col o p = run_init k col (norm_opts o) p.
Proof. exact run_init_norm. Qed.

(* supported interface kind: the state of the reference controller after the whole init trace, from
   power-on, for EVERY option set (any size / offset), with or without a reset pin *)
Theorem C11_init_supported : forall m k o rst,
  In m gen_models -> supported (m_prog m) k = true ->
  let t0 := fst (run_init k (m_color m) o (m_prog m)) in
  let r := snd (run_init k (m_color m) o (m_prog m)) in
  let t := reset_events rst ++ t0 in
  let K := ctl_run (power_on (m_fw m) (m_fh m)) t in
  r = Ok (madctl_of_opts o) /\                               (* returns Ok(SetAddressMode::from(options)) *)
  k_asleep K = false /\ k_on K = true /\                     (* awake, switched on *)
  k_madctl K = madctl_of_opts o /\                           (* the byte handed to Display is the one sent *)
  k_madctl K = spec_madctl (o_bgr o) (o_orient o) (o_btt o) (o_rtl o) /\
  k_colmod K = Some (colmod_of (m_color m)) /\               (* interface pixel format = colour type *)
  k_inverted K = o_inv o /\                                  (* inversion as chosen *)
  k_wrev K = [] /\ k_ramwr_seen K = false /\ existsb is_pixdata t = false /\   (* no pixel memory written *)
  k_flags K = [] /\ k_page K = false /\                      (* no anomaly; user command page selected *)
  (exists ts, k_last_slp K = Some ts /\ SLEEP_NS <= k_clock K - ts) /\   (* >= 120 ms after sleep-out *)
  k_resets K = 1.                                            (* exactly one reset *)
Proof. exact init_supported_spec. Qed.

(* an interface kind the model cannot drive: UnsupportedInterface, no model event at all; the gate is
   the first statement of every model's init *)
Theorem C11_init_unsupported : forall m k o,
  In m gen_models -> supported (m_prog m) k = false ->
  run_init k (m_color m) o (m_prog m) = ([], Err (ECfg UnsupportedInterface)) /\
  gate_first (m_prog m) = true.
Proof. exact init_unsupported_spec. Qed.

(* every model / interface pairing supported on the pinned tree stays supported *)
Theorem C11_matrix_stays : forall name ks,
  In (name, ks) baseline_matrix ->
  exists m, find_model name gen_models = Some m /\ In m gen_models /\
            forall k, In k ks -> supported (m_prog m) k = true.
Proof. exact matrix_stays. Qed.

(* Builder::init: valid size / offset, supported kind: reset, then the model's events; the Display holds
   the options, the MADCTL byte that was sent, and is not sleeping *)
Theorem C11_builder_init_supported : forall md m k o rst,
  In m gen_models -> supported (m_prog m) k = true ->
  init_check md (m_fw m) (m_fh m) (o_w o) (o_h o) (o_ox o) (o_oy o) = Ok tt ->
  builder_init md (m_fw m) (m_fh m) rst o (run_init k (m_color m) o (m_prog m)) =
  (reset_events rst ++ fst (run_init k (m_color m) o (m_prog m)),
   Ok {| d_opts := o; d_madctl := madctl_of_opts o; d_sleeping := false |}).
Proof. exact builder_init_supported. Qed.

(* Builder::init on an interface kind the model cannot drive: the error, and only the reset was sent *)
Theorem C11_builder_init_unsupported : forall md m k o rst,
  In m gen_models -> supported (m_prog m) k = false ->
  init_check md (m_fw m) (m_fh m) (o_w o) (o_h o) (o_ox o) (o_oy o) = Ok tt ->
  builder_init md (m_fw m) (m_fh m) rst o (run_init k (m_color m) o (m_prog m)) =
  (reset_events rst, Err (ECfg UnsupportedInterface)).
Proof. exact builder_init_unsupported. Qed.

(* ------------------------------------------------------------------ non-vacuity (numbers only) *)
Definition nth_model (n : nat) : model_def :=
  nth n gen_models {| m_name := EmptyString; m_fw := 0; m_fh := 0; m_color := CRgb565; m_prog := [] |}.
Definition ex_opts : opts :=
  {| o_bgr := true; o_orient := {| rotn := D90; mir := false |}; o_inv := true; o_btt := false; o_rtl := false;
     o_w := 240; o_h := 320; o_ox := 0; o_oy := 0 |}.
Definition ex_run (n : nat) (k : kind) (rst : bool) : list event :=
  reset_events rst ++ fst (run_init k (m_color (nth_model n)) ex_opts (m_prog (nth_model n))).
Definition ex_ctl (n : nat) (k : kind) (rst : bool) : ctl :=
  ctl_run (power_on (m_fw (nth_model n)) (m_fh (nth_model n))) (ex_run n k rst).

(* model 12 is ST7789 (240 x 320, Rgb565), drivable on all three kinds *)
Example ex_st7789_dims : (m_fw (nth_model 12), m_fh (nth_model 12)) = (240, 320).
Proof. vm_compute. reflexivity. Qed.
Example ex_st7789_supported : map (supported (m_prog (nth_model 12))) all_kinds = [true; true; true].
Proof. vm_compute. reflexivity. Qed.
(* its init on Serial4Line with a reset pin: 3 reset events + 11 model events; MADCTL 0x68 = MX|MV|BGR;
   COLMOD 0x55; inverted; 310.01 ms on the clock, sleep-out at 150.01 ms *)
Example ex_st7789_trace_len : List.length (ex_run 12 Serial4Line true) = 14%nat.
Proof. vm_compute. reflexivity. Qed.
Example ex_st7789_final :
  let K := ex_ctl 12 Serial4Line true in
  (k_madctl K, k_colmod K, k_inverted K, k_asleep K, k_on K, k_clock K, k_last_slp K, k_resets K) =
  (0x68, Some 0x55, true, false, true, 300010000, Some 150010000, 1).
Proof. vm_compute. reflexivity. Qed.
Example ex_st7789_ret :
  snd (run_init Serial4Line (m_color (nth_model 12)) ex_opts (m_prog (nth_model 12))) = Ok 0x68.
Proof. vm_compute. reflexivity. Qed.
(* model 6 is ILI9486Rgb565 (320 x 480): refused on Serial4Line, nothing but the software reset sent *)
Example ex_ili9486_565_unsupported :
  (supported (m_prog (nth_model 6)) Serial4Line, List.length (ex_run 6 Serial4Line false)) = (false, 1%nat).
Proof. vm_compute. reflexivity. Qed.
(* model 3 is a Rgb666 model: COLMOD 0x66 *)
Example ex_rgb666_colmod : k_colmod (ex_ctl 3 Parallel8Bit false) = Some 0x66.
Proof. vm_compute. reflexivity. Qed.
(* the hypothesis of the Builder theorems is satisfiable *)
Example ex_init_check : init_check Debug 240 320 (o_w ex_opts) (o_h ex_opts) (o_ox ex_opts) (o_oy ex_opts) = Ok tt.
Proof. vm_compute. reflexivity. Qed.
