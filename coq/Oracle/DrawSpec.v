(* DrawSpec.v — what a drawing program must leave in controller memory, stated directly from the
   property texts (C01-C04): per operation, the ordered list of cell writes. Independent of the
   driver model: no address windows, no batching, no take/skip arithmetic here. *)
Require Import Model.Base Model.Orient Model.Events Model.Rect Model.Batch Model.Display.
Require Import Oracle.Spec Oracle.Controller.
Open Scope Z_scope.

Record panel := { p_w : Z; p_h : Z; p_ox : Z; p_oy : Z }.   (* configured window, native orientation *)

Definition panel_of (o : opts) : panel := {| p_w := o_w o; p_h := o_h o; p_ox := o_ox o; p_oy := o_oy o |}.

Definition lw_of (p : panel) (o : orient) : Z := match rotn o with D0 | D180 => p_w p | _ => p_h p end.
Definition lh_of (p : panel) (o : orient) : Z := match rotn o with D0 | D180 => p_h p | _ => p_w p end.

Definition in_box (p : panel) (o : orient) (x y : Z) : bool :=
  (0 <=? x) && (x <? lw_of p o) && (0 <=? y) && (y <? lh_of p o).

Definition cell (p : panel) (o : orient) (x y : Z) : Z * Z := spec_cell (p_w p) (p_h p) (p_ox p) (p_oy p) o x y.

Section WithEnc.
Variable enc : Z -> list Z.
Variable p : panel.

Definition px (o : orient) (x y col : Z) : wr := let '(cx, cy) := cell p o x y in WPx cx cy (enc col).

(* physical rectangle covered by the logical rectangle [x0,x1] x [y0,y1] *)
Definition prect (o : orient) (x0 y0 x1 y1 : Z) (col : Z) : wr :=
  let '(ax, ay) := cell p o x0 y0 in
  let '(bx, by_) := cell p o x1 y1 in
  WRect (Z.min ax bx) (Z.min ay by_) (Z.max ax bx) (Z.max ay by_) (enc col).

(* k-th colour on the k-th point of [sx,ex] x [sy,ey], row-major, as far as both last *)
Fixpoint zip_row (o : orient) (x y : Z) (n : nat) (cs : list Z) : list wr * list Z :=
  match n, cs with
  | S n', col :: cs' => let '(ws, rest) := zip_row o (x + 1) y n' cs' in (px o x y col :: ws, rest)
  | _, _ => ([], cs)
  end.
Fixpoint zip_rows (o : orient) (sx y : Z) (w : nat) (rows : nat) (cs : list Z) : list wr :=
  match rows with
  | O => []
  | S r' =>
      match cs with
      | [] => []
      | _ => let '(ws, rest) := zip_row o sx y w cs in ws ++ zip_rows o sx (y + 1) w r' rest
      end
  end.

(* visible part of an axis interval [a, a+n) clipped to [0, m): (lo, hi) with lo <= hi exclusive *)
Definition clip_lo (a : Z) : Z := Z.max a 0.
Definition clip_hi (a n m : Z) : Z := Z.min (a + n) m.

(* fill_contiguous: colour k belongs to point k of the requested rectangle; only visible points are
   written; a stream that ends early leaves the rest untouched *)
Fixpoint contig_rows (o : orient) (r : rect) (vx0 vx1 : Z) (y : Z) (rows : nat) (cs : list Z) : list wr :=
  match rows with
  | O => []
  | S n' =>
      let k0 := (y - ry r) * rw r + (vx0 - rx r) in
      let rowcs := firstn (Z.to_nat (vx1 - vx0)) (skipnZ k0 cs) in
      fst (zip_row o vx0 y (Z.to_nat (vx1 - vx0)) rowcs) ++ contig_rows o r vx0 vx1 (y + 1) n' cs
  end.

Definition spec_fill_contig (o : orient) (r : rect) (cs : list Z) : list wr :=
  let vx0 := clip_lo (rx r) in let vx1 := clip_hi (rx r) (rw r) (lw_of p o) in
  let vy0 := clip_lo (ry r) in let vy1 := clip_hi (ry r) (rh r) (lh_of p o) in
  if (vx0 <? vx1) && (vy0 <? vy1) then
    contig_rows o r vx0 vx1 vy0 (Z.to_nat (vy1 - vy0)) (firstnZ (rw r * rh r) cs)
  else [].

Definition spec_fill_solid (o : orient) (r : rect) (col : Z) : list wr :=
  let vx0 := clip_lo (rx r) in let vx1 := clip_hi (rx r) (rw r) (lw_of p o) in
  let vy0 := clip_lo (ry r) in let vy1 := clip_hi (ry r) (rh r) (lh_of p o) in
  if (vx0 <? vx1) && (vy0 <? vy1) then [prect o vx0 vy0 (vx1 - 1) (vy1 - 1) col] else [].

Definition spec_op_writes (o : orient) (op : pop) : list wr :=
  match op with
  | PSetPixel x y col => [px o x y col]
  | PSetPixels sx sy ex ey cs => zip_rows o sx sy (Z.to_nat (ex - sx + 1)) (Z.to_nat (ey - sy + 1)) cs
  | PDrawIter ps =>
      map (fun q => let '(x, y, col) := q in px o x y col)
          (filter (fun q => let '(x, y, _) := q in in_box p o x y) ps)
  | PFillContig r cs => spec_fill_contig o r cs
  | PFillContigGen r n => spec_fill_contig o r (gen_colors n)
  | PFillSolid r col => spec_fill_solid o r col
  | PClear col => spec_fill_solid o {| rx := 0; ry := 0; rw := lw_of p o; rh := lh_of p o |} col
  | _ => []
  end.

(* Evaluation-friendly variant used by the correspondence check: rows that lie wholly behind the end of
   the colour stream write nothing, so they need not be walked (a 40 000-row rectangle with a 50-colour
   stream is 1 row of work). Proved equal to spec_fill_contig in Proofs/SpecFastP.v. *)
Definition spec_fill_contig_fast (o : orient) (r : rect) (cs : list Z) : list wr :=
  let vx0 := clip_lo (rx r) in let vx1 := clip_hi (rx r) (rw r) (lw_of p o) in
  let vy0 := clip_lo (ry r) in let vy1 := clip_hi (ry r) (rh r) (lh_of p o) in
  if (vx0 <? vx1) && (vy0 <? vy1) then
    let cs' := firstnZ (rw r * rh r) cs in
    let rows := Z.min (vy1 - vy0) (Z.of_nat (length cs') / rw r + 2) in
    contig_rows o r vx0 vx1 vy0 (Z.to_nat rows) cs'
  else [].

Definition spec_op_writes_fast (o : orient) (op : pop) : list wr :=
  match op with
  | PFillContig r cs => spec_fill_contig_fast o r cs
  | PFillContigGen r n => spec_fill_contig_fast o r (gen_colors n)
  | _ => spec_op_writes o op
  end.

Definition spec_op_orient (o : orient) (op : pop) : orient :=
  match op with PSetOrient o' => o' | _ => o end.

End WithEnc.

(* ---- framing grammar (C08): each drawing call is (CASET RASET RAMWR PIX)* ---- *)
Definition is_pix (e : event) : bool := match e with EPixels _ | ERepeat _ _ => true | _ => false end.
Fixpoint framing_ok (t : list event) : bool :=
  match t with
  | [] => true
  | ECmd a [_; _; _; _] :: ECmd b [_; _; _; _] :: ECmd c [] :: e :: rest =>
      (a =? 0x2A) && (b =? 0x2B) && (c =? 0x2C) && is_pix e && framing_ok rest
  | _ => false
  end.
Fixpoint count_ramwr (t : list event) : Z :=
  match t with
  | [] => 0
  | ECmd op _ :: r => (if op =? 0x2C then 1 else 0) + count_ramwr r
  | _ :: r => count_ramwr r
  end.
Definition is_draw (op : pop) : bool :=
  match op with
  | PSetPixel _ _ _ | PSetPixels _ _ _ _ _ | PDrawIter _ | PFillContig _ _ | PFillContigGen _ _
  | PFillSolid _ _ | PClear _ => true
  | _ => false
  end.
