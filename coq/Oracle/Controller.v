(* Controller.v — the reference MIPI-DCS controller: what a panel controller decodes from the L1
   event stream. This is the specification side of every "as a MIPI-DCS controller decodes the bus
   traffic" clause. It is short on purpose; see DESIGN.md §4. *)
Require Import Model.Base Model.Events.
Open Scope Z_scope.

Inductive anomaly :=
| BadParamCount (op : Z)       (* wrong number of parameters for a standard command *)
| BadWindow (op : Z)           (* start > end *)
| WindowOutside (op : Z)       (* end beyond the addressable extent under the current MV *)
| PointerWrap                  (* more pixels than the window holds: the write pointer wrapped *)
| PixelsWithoutRamwr           (* pixel data not preceded by write_memory_start *)
| RepeatNotWindow              (* a large repeat that does not cover its window exactly *)
| SleepSpacing.                (* sleep-in / sleep-out issued < 120 ms after the previous one *)

(* one entry of the write history *)
Inductive wr :=
| WPx (x y : Z) (ws : list Z)                  (* one framebuffer cell *)
| WRect (x0 y0 x1 y1 : Z) (ws : list Z).       (* every cell of a physical rectangle, same words *)

Definition wr_eqb (a b : wr) : bool :=
  match a, b with
  | WPx x1 y1 w1, WPx x2 y2 w2 => (x1 =? x2) && (y1 =? y2) && zlist_eqb w1 w2
  | WRect a1 b1 c1 d1 w1, WRect a2 b2 c2 d2 w2 =>
      (a1 =? a2) && (b1 =? b2) && (c1 =? c2) && (d1 =? d2) && zlist_eqb w1 w2
  | _, _ => false
  end.

Record ctl := {
  k_fw : Z; k_fh : Z;                       (* framebuffer size, native orientation *)
  k_madctl : Z; k_colmod : option Z;
  k_asleep : bool; k_on : bool; k_inverted : bool; k_te : option Z;
  k_sc : Z; k_ec : Z; k_sp : Z; k_ep : Z;   (* column / page window *)
  k_ptr : option (Z * Z * bool);            (* write pointer (column, page, wrapped) — None until RAMWR *)
  k_vscr : option (Z * Z * Z); k_vstart : option Z;
  k_wrev : list wr;                         (* write history, newest first *)
  k_flags : list anomaly;
  k_clock : Z;                              (* virtual time, ns *)
  k_last_slp : option Z;                    (* time of the last sleep-in / sleep-out command *)
  k_ramwr_seen : bool;                      (* a memory write start / continue was received *)
  k_page : bool;                            (* RM67162 manufacturer command page selected *)
  k_resets : Z;                             (* hardware + software resets seen *)
  k_opaque : list Z                         (* opcodes outside the user command set, newest first *)
}.

Definition set_core (k : ctl) madctl colmod asleep on inv te : ctl :=
  {| k_fw := k_fw k; k_fh := k_fh k; k_madctl := madctl; k_colmod := colmod; k_asleep := asleep; k_on := on;
     k_inverted := inv; k_te := te; k_sc := k_sc k; k_ec := k_ec k; k_sp := k_sp k; k_ep := k_ep k;
     k_ptr := None; k_vscr := k_vscr k; k_vstart := k_vstart k; k_wrev := k_wrev k; k_flags := k_flags k;
     k_clock := k_clock k; k_last_slp := k_last_slp k; k_ramwr_seen := k_ramwr_seen k; k_page := k_page k;
     k_resets := k_resets k; k_opaque := k_opaque k |}.

Definition power_on (fw fh : Z) : ctl :=
  {| k_fw := fw; k_fh := fh; k_madctl := 0; k_colmod := None; k_asleep := true; k_on := false;
     k_inverted := false; k_te := None; k_sc := 0; k_ec := fw - 1; k_sp := 0; k_ep := fh - 1;
     k_ptr := None; k_vscr := None; k_vstart := None; k_wrev := []; k_flags := []; k_clock := 0;
     k_last_slp := None; k_ramwr_seen := false; k_page := false; k_resets := 0; k_opaque := [] |}.

(* hardware or software reset: registers to defaults, frame memory and history kept *)
Definition do_reset (k : ctl) : ctl :=
  {| k_fw := k_fw k; k_fh := k_fh k; k_madctl := 0; k_colmod := None; k_asleep := true; k_on := false;
     k_inverted := false; k_te := None; k_sc := 0; k_ec := k_fw k - 1; k_sp := 0; k_ep := k_fh k - 1;
     k_ptr := None; k_vscr := None; k_vstart := None; k_wrev := k_wrev k; k_flags := k_flags k;
     k_clock := k_clock k; k_last_slp := None; k_ramwr_seen := k_ramwr_seen k; k_page := false;
     k_resets := k_resets k + 1; k_opaque := k_opaque k |}.

Definition flag (k : ctl) (a : anomaly) : ctl :=
  {| k_fw := k_fw k; k_fh := k_fh k; k_madctl := k_madctl k; k_colmod := k_colmod k; k_asleep := k_asleep k;
     k_on := k_on k; k_inverted := k_inverted k; k_te := k_te k; k_sc := k_sc k; k_ec := k_ec k; k_sp := k_sp k;
     k_ep := k_ep k; k_ptr := k_ptr k; k_vscr := k_vscr k; k_vstart := k_vstart k; k_wrev := k_wrev k;
     k_flags := a :: k_flags k; k_clock := k_clock k; k_last_slp := k_last_slp k;
     k_ramwr_seen := k_ramwr_seen k; k_page := k_page k; k_resets := k_resets k; k_opaque := k_opaque k |}.

Definition with_window (k : ctl) sc ec sp ep : ctl :=
  {| k_fw := k_fw k; k_fh := k_fh k; k_madctl := k_madctl k; k_colmod := k_colmod k; k_asleep := k_asleep k;
     k_on := k_on k; k_inverted := k_inverted k; k_te := k_te k; k_sc := sc; k_ec := ec; k_sp := sp;
     k_ep := ep; k_ptr := None; k_vscr := k_vscr k; k_vstart := k_vstart k; k_wrev := k_wrev k;
     k_flags := k_flags k; k_clock := k_clock k; k_last_slp := k_last_slp k;
     k_ramwr_seen := k_ramwr_seen k; k_page := k_page k; k_resets := k_resets k; k_opaque := k_opaque k |}.

Definition with_ptr (k : ctl) (p : option (Z * Z * bool)) (wrev : list wr) (seen : bool) : ctl :=
  {| k_fw := k_fw k; k_fh := k_fh k; k_madctl := k_madctl k; k_colmod := k_colmod k; k_asleep := k_asleep k;
     k_on := k_on k; k_inverted := k_inverted k; k_te := k_te k; k_sc := k_sc k; k_ec := k_ec k; k_sp := k_sp k;
     k_ep := k_ep k; k_ptr := p; k_vscr := k_vscr k; k_vstart := k_vstart k; k_wrev := wrev;
     k_flags := k_flags k; k_clock := k_clock k; k_last_slp := k_last_slp k;
     k_ramwr_seen := seen; k_page := k_page k; k_resets := k_resets k; k_opaque := k_opaque k |}.

Definition with_misc (k : ctl) vscr vstart clock last_slp page opaque : ctl :=
  {| k_fw := k_fw k; k_fh := k_fh k; k_madctl := k_madctl k; k_colmod := k_colmod k; k_asleep := k_asleep k;
     k_on := k_on k; k_inverted := k_inverted k; k_te := k_te k; k_sc := k_sc k; k_ec := k_ec k; k_sp := k_sp k;
     k_ep := k_ep k; k_ptr := k_ptr k; k_vscr := vscr; k_vstart := vstart; k_wrev := k_wrev k;
     k_flags := k_flags k; k_clock := clock; k_last_slp := last_slp;
     k_ramwr_seen := k_ramwr_seen k; k_page := page; k_resets := k_resets k; k_opaque := opaque |}.

Definition mv (m : Z) := Z.testbit m 5.
Definition mx (m : Z) := Z.testbit m 6.
Definition my (m : Z) := Z.testbit m 7.

(* host (column, page) -> physical framebuffer cell: exchange if MV, then mirror by MX / MY *)
Definition phys (fw fh m : Z) (c p : Z) : Z * Z :=
  let '(x, y) := if mv m then (p, c) else (c, p) in
  ((if mx m then fw - 1 - x else x), (if my m then fh - 1 - y else y)).

(* addressable extent of the column / page counters under the current MV *)
Definition col_extent (k : ctl) : Z := if mv (k_madctl k) then k_fh k else k_fw k.
Definition page_extent (k : ctl) : Z := if mv (k_madctl k) then k_fw k else k_fh k.

Definition SLEEP_NS : Z := 120000000.

Definition sleep_cmd (k : ctl) (asleep : bool) : ctl :=
  let k1 := match k_last_slp k with
            | Some t => if k_clock k - t <? SLEEP_NS then flag k SleepSpacing else k
            | None => k
            end in
  let k2 := set_core k1 (k_madctl k1) (k_colmod k1) asleep (k_on k1) (k_inverted k1) (k_te k1) in
  with_misc k2 (k_vscr k2) (k_vstart k2) (k_clock k2) (Some (k_clock k2)) (k_page k2) (k_opaque k2).

Definition window_cmd (k : ctl) (op : Z) (args : list Z) : ctl :=
  match args with
  | [sh; sl; eh; el] =>
      let s := 256 * sh + sl in
      let e := 256 * eh + el in
      let k0 := if e <? s then flag k (BadWindow op) else k in
      let ext := if op =? 0x2A then col_extent k else page_extent k in
      let k1 := if ext <=? e then flag k0 (WindowOutside op) else k0 in
      if op =? 0x2A then with_window k1 s e (k_sp k1) (k_ep k1)
      else with_window k1 (k_sc k1) (k_ec k1) s e
  | _ => flag (with_window k (k_sc k) (k_ec k) (k_sp k) (k_ep k)) (BadParamCount op)
  end.

Definition keep_core (k : ctl) := set_core k (k_madctl k) (k_colmod k) (k_asleep k) (k_on k) (k_inverted k) (k_te k).

Definition command (k : ctl) (op : Z) (args : list Z) : ctl :=
  if (op =? 0xFE) && (match args with [_] => true | _ => false end) then
    (* RM67162: manufacturer command page select; page 0 = user command set *)
    let k' := keep_core k in
    with_misc k' (k_vscr k') (k_vstart k') (k_clock k') (k_last_slp k')
              (match args with [n] => negb (n =? 0) | _ => false end) (op :: k_opaque k')
  else if k_page k then
    let k' := keep_core k in
    with_misc k' (k_vscr k') (k_vstart k') (k_clock k') (k_last_slp k') true (op :: k_opaque k')
  else if op =? 0x01 then do_reset k
  else if op =? 0x10 then sleep_cmd k true
  else if op =? 0x11 then sleep_cmd k false
  else if op =? 0x28 then set_core k (k_madctl k) (k_colmod k) (k_asleep k) false (k_inverted k) (k_te k)
  else if op =? 0x29 then set_core k (k_madctl k) (k_colmod k) (k_asleep k) true (k_inverted k) (k_te k)
  else if op =? 0x20 then set_core k (k_madctl k) (k_colmod k) (k_asleep k) (k_on k) false (k_te k)
  else if op =? 0x21 then set_core k (k_madctl k) (k_colmod k) (k_asleep k) (k_on k) true (k_te k)
  else if op =? 0x34 then set_core k (k_madctl k) (k_colmod k) (k_asleep k) (k_on k) (k_inverted k) None
  else if op =? 0x35 then
    match args with
    | [b] => set_core k (k_madctl k) (k_colmod k) (k_asleep k) (k_on k) (k_inverted k) (Some b)
    | _ => flag (keep_core k) (BadParamCount op)
    end
  else if op =? 0x36 then
    match args with
    | [b] => set_core k b (k_colmod k) (k_asleep k) (k_on k) (k_inverted k) (k_te k)
    | _ => flag (keep_core k) (BadParamCount op)
    end
  else if op =? 0x3A then
    match args with
    | [b] => set_core k (k_madctl k) (Some b) (k_asleep k) (k_on k) (k_inverted k) (k_te k)
    | _ => flag (keep_core k) (BadParamCount op)
    end
  else if (op =? 0x2A) || (op =? 0x2B) then window_cmd k op args
  else if op =? 0x2C then with_ptr k (Some (k_sc k, k_sp k, false)) (k_wrev k) true
  else if op =? 0x3C then with_ptr k (k_ptr k) (k_wrev k) true
  else if op =? 0x33 then
    match args with
    | [a; b; c; d; e; f] =>
        let k' := keep_core k in
        with_misc k' (Some (256 * a + b, 256 * c + d, 256 * e + f)) (k_vstart k') (k_clock k') (k_last_slp k') (k_page k') (k_opaque k')
    | _ => flag (keep_core k) (BadParamCount op)
    end
  else if op =? 0x37 then
    match args with
    | [a; b] =>
        let k' := keep_core k in
        with_misc k' (k_vscr k') (Some (256 * a + b)) (k_clock k') (k_last_slp k') (k_page k') (k_opaque k')
    | _ => flag (keep_core k) (BadParamCount op)
    end
  else if (op =? 0x12) || (op =? 0x13) || (op =? 0x38) || (op =? 0x39) || (op =? 0x00) then keep_core k
  else
    let k' := keep_core k in
    with_misc k' (k_vscr k') (k_vstart k') (k_clock k') (k_last_slp k') (k_page k') (op :: k_opaque k').

(* one pixel at the write pointer *)
Definition write_px (k : ctl) (ws : list Z) : ctl :=
  match k_ptr k with
  | None => flag k PixelsWithoutRamwr
  | Some (c, p, wrapped) =>
      let k0 := if wrapped then flag k PointerWrap else k in
      let '(x, y) := phys (k_fw k) (k_fh k) (k_madctl k) c p in
      let '(c', p', w') :=
        if c <? k_ec k then (c + 1, p, false)
        else if p <? k_ep k then (k_sc k, p + 1, false)
        else (k_sc k, k_sp k, true) in
      with_ptr k0 (Some (c', p', w')) (WPx x y ws :: k_wrev k0) (k_ramwr_seen k0)
  end.

Definition window_area (k : ctl) : Z := (k_ec k - k_sc k + 1) * (k_ep k - k_sp k + 1).

(* the same pixel `count` times: a whole-window fill is recorded as one rectangle *)
Definition write_repeat (k : ctl) (ws : list Z) (count : Z) : ctl :=
  match k_ptr k with
  | None => if count =? 0 then k else flag k PixelsWithoutRamwr
  | Some (c, p, wrapped) =>
      if count =? 0 then k
      else if (c =? k_sc k) && (p =? k_sp k) && negb wrapped && (count =? window_area k)
              && (k_sc k <=? k_ec k) && (k_sp k <=? k_ep k) then
        let '(xa, ya) := phys (k_fw k) (k_fh k) (k_madctl k) (k_sc k) (k_sp k) in
        let '(xb, yb) := phys (k_fw k) (k_fh k) (k_madctl k) (k_ec k) (k_ep k) in
        with_ptr k (Some (k_sc k, k_sp k, true))
                 (WRect (Z.min xa xb) (Z.min ya yb) (Z.max xa xb) (Z.max ya yb) ws :: k_wrev k) (k_ramwr_seen k)
      else if count <=? 4096 then fold_left (fun k' _ => write_px k' ws) (seq 0 (Z.to_nat count)) k
      else flag k RepeatNotWindow
  end.

Definition ctl_step (k : ctl) (e : event) : ctl :=
  match e with
  | ECmd op args => command k op args
  | EPixels px => fold_left write_px px k
  | ERepeat ws n => write_repeat k ws n
  | EDelay ns =>
      with_misc k (k_vscr k) (k_vstart k) (k_clock k + ns) (k_last_slp k) (k_page k) (k_opaque k)
  | ERstLow => do_reset k
  | ERstHigh => k
  end.

Definition ctl_run (k : ctl) (t : list event) : ctl := fold_left ctl_step t k.

Definition writes (k : ctl) : list wr := rev (k_wrev k).

(* colour words of the last write to a cell *)
Fixpoint mem_rev (wrev : list wr) (x y : Z) : option (list Z) :=
  match wrev with
  | [] => None
  | WPx x' y' ws :: r => if (x =? x') && (y =? y') then Some ws else mem_rev r x y
  | WRect x0 y0 x1 y1 ws :: r =>
      if (x0 <=? x) && (x <=? x1) && (y0 <=? y) && (y <=? y1) then Some ws else mem_rev r x y
  end.
Definition mem (k : ctl) (x y : Z) : option (list Z) := mem_rev (k_wrev k) x y.
