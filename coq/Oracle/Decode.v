(* Decode.v — the specification-side decoder of a pin-level log: what a panel sees on its pins
   (SPI bytes with the DC level, or the data bus sampled at the rising edges of WR, plus delays and
   reset edges) is turned back into L1 events, which the reference controller (Oracle/Controller.v)
   then decodes into a picture. Proofs/DecodeP.v proves that this decoder inverts the two transports
   (Model/Spi.v, Model/Parallel.v) on the driver's traffic. Definitions only. *)
Require Import Model.Base Model.Events Model.Parallel.
Open Scope list_scope.
Open Scope Z_scope.

(* ---------------------------------------------------------------- decoding a pin-level log back to L1 *)
(* the byte / word stream with the DC level: SPI writes, or bus samples at WR rising edges *)
Inductive witem := WByte (dc : bool) (v : Z) | WDelay (ns : Z) | WRst (high : bool).

Fixpoint wire_spi (dc : bool) (ops : list l2op) : list witem :=
  match ops with
  | [] => []
  | ODc b :: r => wire_spi b r
  | OSpi bs :: r => map (WByte dc) bs ++ wire_spi dc r
  | ODelay ns :: r => WDelay ns :: wire_spi dc r
  | ORst b :: r => WRst b :: wire_spi dc r
  | _ :: r => wire_spi dc r
  end.
Fixpoint wire_par (st : lines) (ops : list l2op) : list witem :=
  match ops with
  | [] => []
  | o :: r =>
      (match o with
       | OWr true => if l_wr st then [] else [WByte (l_dc st) (data_value (l_pins st))]
       | ODelay ns => [WDelay ns]
       | ORst b => [WRst b]
       | _ => []
       end) ++ wire_par (line_step st o) r
  end.

Fixpoint chunks (n : nat) (fuel : nat) (l : list Z) : list (list Z) :=
  match fuel with
  | O => []
  | S f => match l with [] => [] | _ => firstn n l :: chunks n f (skipn n l) end
  end.

(* a command byte (DC low) opens a command; DC-high items are its parameters — or, after 0x2C, pixel
   words grouped n per pixel *)
Definition flush (n : nat) (cur : option (Z * list Z)) : list event :=
  match cur with
  | None => []
  | Some (op, rargs) =>
      let args := rev rargs in
      if op =? 0x2C then [ECmd op []; EPixels (chunks n (S (length args)) args)] else [ECmd op args]
  end.
Fixpoint decode_items (n : nat) (cur : option (Z * list Z)) (orphan : list Z) (l : list witem) : list event :=
  match l with
  | [] => flush n cur ++ (match orphan with [] => [] | _ => [EPixels (chunks n (S (length orphan)) (rev orphan))] end)
  | WByte false v :: r => flush n cur ++ decode_items n (Some (v, [])) [] r
  | WByte true v :: r =>
      match cur with
      | Some (op, ra) => decode_items n (Some (op, v :: ra)) orphan r
      | None => decode_items n None (v :: orphan) r
      end
  | WDelay ns :: r => flush n cur ++ EDelay ns :: decode_items n None orphan r
  | WRst b :: r => flush n cur ++ (if b then ERstHigh else ERstLow) :: decode_items n None orphan r
  end.

(* ---------------------------------------------------------------- what an L1 trace must put on the wire *)
(* the item stream an L1 trace must produce on the wire *)
Definition items_of_event (e : event) : list witem :=
  match e with
  | ECmd op args => WByte false op :: map (WByte true) args
  | EPixels px => map (WByte true) (concat px)
  | ERepeat p c => map (WByte true) (concat (repeat p (Z.to_nat c)))
  | EDelay ns => [WDelay ns]
  | ERstLow => [WRst false]
  | ERstHigh => [WRst true]
  end.
Definition items_of (t : list event) : list witem := flat_map items_of_event t.

(* the shape of the driver's traffic: commands (RAMWR without parameters, immediately followed by
   exactly one pixel event of n-word pixels), delays, reset edges *)
Inductive framed (n : nat) : list event -> Prop :=
| fr_nil : framed n []
| fr_cmd op args t : op <> 0x2C -> framed n t -> framed n (ECmd op args :: t)
| fr_px px t : Forall (fun p => length p = n) px -> framed n t -> framed n (ECmd 0x2C [] :: EPixels px :: t)
| fr_rep p c t : length p = n -> 0 <= c -> framed n t -> framed n (ECmd 0x2C [] :: ERepeat p c :: t)
| fr_delay ns t : framed n t -> framed n (EDelay ns :: t)
| fr_rst (b : bool) t : framed n t -> framed n ((if b then ERstHigh else ERstLow) :: t).

(* what the decoder returns: repeats are seen as streams *)
Definition normalise_event (e : event) : event :=
  match e with ERepeat p c => EPixels (repeat p (Z.to_nat c)) | x => x end.
Definition normalise (t : list event) : list event := map normalise_event t.
