(* InitSpec.v — what Builder::init must have done, decided on an L1 event trace (C11, C13 init clause,
   C17). Boolean checkers: they run on the implementation's recorded traces in the correspondence
   check and, over the regenerated model programs, inside the theorems of Props/C11.v, C13.v, C17.v. *)
Require Import Model.Base Model.Orient Model.Dcs Model.Events Model.Builder Model.InitLang.
Require Import Oracle.Spec Oracle.Controller.
From Coq Require Import String.
Open Scope Z_scope.

(* interface pixel format a MIPI-DCS controller must be told for each colour type (DBI = DPI) *)
Definition colmod_of (c : colorfmt) : Z := match c with CRgb565 => 0x55 | CRgb666 => 0x66 end.

Definition is_rst (e : event) : bool := match e with ERstLow | ERstHigh => true | _ => false end.
Definition is_softreset (e : event) : bool := match e with ECmd op _ => op =? 0x01 | _ => false end.
Definition is_pixdata (e : event) : bool :=
  match e with
  | EPixels _ | ERepeat _ _ => true
  | ECmd op _ => (op =? 0x2C) || (op =? 0x3C)
  | _ => false
  end.

(* C17: reset comes first. With a reset pin: low, >= 10 us, high, and nothing else touches the pin or
   sends a software reset afterwards. Without: software reset is the first thing on the bus, once. *)
Definition reset_first_ok (rst : bool) (t : list event) : bool :=
  if rst then
    match t with
    | ERstLow :: EDelay d :: ERstHigh :: rest =>
        (10000 <=? d) && negb (existsb is_rst rest) && negb (existsb is_softreset rest)
    | _ => false
    end
  else
    match t with
    | ECmd op [] :: rest => (op =? 0x01) && negb (existsb is_softreset rest) && negb (existsb is_rst rest)
    | _ => false
    end.

(* C11: state of the reference controller after the whole init trace (from power-on) *)
Definition init_final_ok (fw fh : Z) (col : colorfmt) (o : opts) (t : list event) (ret : Z) : bool :=
  let k := ctl_run (power_on fw fh) t in
  negb (k_asleep k) && k_on k
  && (k_madctl k =? spec_madctl (o_bgr o) (o_orient o) (o_btt o) (o_rtl o))
  && (ret =? k_madctl k)                        (* the value handed to Display is the one that was sent *)
  && (match k_colmod k with Some b => b =? colmod_of col | None => false end)
  && Bool.eqb (k_inverted k) (o_inv o)
  && (match k_wrev k with [] => true | _ => false end)
  && negb (k_ramwr_seen k) && negb (existsb is_pixdata t)      (* no pixel memory written *)
  && (match k_flags k with [] => true | _ => false end)
  && negb (k_page k)
  && (match k_last_slp k with Some ts => SLEEP_NS <=? k_clock k - ts | None => false end)
  && (k_resets k =? 1).

(* which interface kinds the program's gates let through *)
Definition supported (p : list istmt) (k : kind) : bool :=
  forallb (fun s => match s with IGate ks => kind_in k ks | _ => true end) p.
Definition gate_first (p : list istmt) : bool := match p with IGate _ :: _ => true | _ => false end.

(* the whole init of one configuration: model program m, interface kind, options, reset pin or not *)
Definition init_case_ok (m : model_def) (k : kind) (o : opts) (rst : bool) : bool :=
  let '(t0, r) := run_init k (m_color m) o (m_prog m) in
  let t := reset_events rst ++ t0 in
  reset_first_ok rst t && propagates (m_prog m) && gate_first (m_prog m) &&
  (if supported (m_prog m) k then
     match r with Ok b => init_final_ok (m_fw m) (m_fh m) (m_color m) o t b | _ => false end
   else
     match r, t0 with Err (ECfg UnsupportedInterface), [] => true | _, _ => false end).

(* the same judgement on a recorded implementation run: result + events *)
Definition init_impl_ok (m : model_def) (k : kind) (o : opts) (rst : bool) (r : res) (t : list event)
           (reported_madctl_ok : bool) : bool :=
  if supported (m_prog m) k then
    res_beq r ROk && reset_first_ok rst t && reported_madctl_ok &&
    init_final_ok (m_fw m) (m_fh m) (m_color m) o t (k_madctl (ctl_run (power_on (m_fw m) (m_fh m)) t))
  else
    res_beq r (RErr (ECfg UnsupportedInterface)) && events_eqb t (reset_events rst).

(* option sets: init programs read only these five options (size and offset are not available to the
   generated language at all) *)
Definition mk_opts (bgr : bool) (x : orient) (inv btt rtl : bool) : opts :=
  {| o_bgr := bgr; o_orient := x; o_inv := inv; o_btt := btt; o_rtl := rtl; o_w := 0; o_h := 0; o_ox := 0; o_oy := 0 |}.
Definition all_bools : list bool := [false; true].
Definition all_flag_opts : list opts :=
  flat_map (fun bgr => flat_map (fun x => flat_map (fun inv => flat_map (fun btt =>
    map (fun rtl => mk_opts bgr x inv btt rtl) all_bools) all_bools) all_bools) all_orients) all_bools.
Definition norm_opts (o : opts) : opts := mk_opts (o_bgr o) (o_orient o) (o_inv o) (o_btt o) (o_rtl o).

Definition init_sweep (ms : list model_def) : bool :=
  forallb (fun m => forallb (fun k => forallb (fun o => forallb (fun rst => init_case_ok m k o rst) all_bools)
                                             all_flag_opts) all_kinds) ms.

(* model / interface pairings supported on the pinned tree: must stay supported *)
Definition baseline_matrix : list (string * list kind) := [
  ("GC9107", [Serial4Line; Parallel8Bit]);
  ("GC9A01", [Serial4Line; Parallel8Bit; Parallel16Bit]);
  ("ILI9341Rgb565", [Serial4Line; Parallel8Bit; Parallel16Bit]);
  ("ILI9341Rgb666", [Serial4Line; Parallel8Bit; Parallel16Bit]);
  ("ILI9342CRgb565", [Serial4Line; Parallel8Bit; Parallel16Bit]);
  ("ILI9342CRgb666", [Serial4Line; Parallel8Bit; Parallel16Bit]);
  ("ILI9486Rgb565", [Parallel8Bit; Parallel16Bit]);
  ("ILI9486Rgb666", [Serial4Line; Parallel8Bit; Parallel16Bit]);
  ("ILI9488Rgb565", [Serial4Line; Parallel8Bit; Parallel16Bit]);
  ("ILI9488Rgb666", [Serial4Line; Parallel8Bit; Parallel16Bit]);
  ("RM67162", [Serial4Line; Parallel8Bit]);
  ("ST7735s", [Serial4Line; Parallel8Bit; Parallel16Bit]);
  ("ST7789", [Serial4Line; Parallel8Bit; Parallel16Bit]);
  ("ST7796", [Serial4Line; Parallel8Bit; Parallel16Bit])
]%string.
Definition matrix_ok (ms : list model_def) : bool :=
  forallb (fun e => match find_model (fst e) ms with
                    | Some m => forallb (supported (m_prog m)) (snd e)
                    | None => false
                    end) baseline_matrix.

(* framebuffer sizes and colour types of the pinned tree (C01/C16 quantify over "every built-in model") *)
Definition model_dims_ok (ms : list model_def) : bool :=
  forallb (fun m => (1 <=? m_fw m) && (m_fw m <=? 65535) && (1 <=? m_fh m) && (m_fh m <=? 65535)) ms.
