(* Spec.v — the short, readable specifications the properties are stated against. *)
Require Import Model.Base Model.Orient.

(* C09: which configuration error Builder::init must report, if any *)
Definition spec_cfg_error (FW FH w h ox oy : Z) : option cfgerr :=
  if (w =? 0) || (h =? 0) || (FW <? w) || (FH <? h) then Some InvalidDisplaySize
  else if (FW <? ox + w) || (FH <? oy + h) then Some InvalidDisplayOffset
  else None.

(* C01: rotate the logical point clockwise inside the native w x h window, mirror, shift *)
Definition rot_cw (w h : Z) (r : rot) (x y : Z) : Z * Z :=
  match r with
  | D0 => (x, y)
  | D90 => (w - 1 - y, x)
  | D180 => (w - 1 - x, h - 1 - y)
  | D270 => (y, h - 1 - x)
  end.
Definition spec_cell (w h ox oy : Z) (o : orient) (x y : Z) : Z * Z :=
  let '(px, py) := rot_cw w h (rotn o) x y in
  let px := if mir o then w - 1 - px else px in
  (ox + px, oy + py).

(* C14: the MIPI-DCS set_address_mode parameter. B7 page-address order (MY), B6 column-address order
   (MX), B5 page/column exchange (MV), B4 line-address order (bottom-to-top refresh), B3 RGB/BGR,
   B2 display-data-latch order (right-to-left refresh), B1-B0 zero. Which of MY/MX/MV an orientation
   needs is fixed by geometry (C01's window lemma proves this table right). *)
Definition spec_my (o : orient) : bool := match rotn o with D180 | D270 => true | _ => false end.
Definition spec_mx (o : orient) : bool :=
  xorb (match rotn o with D90 | D180 => true | _ => false end) (mir o).
Definition spec_mv (o : orient) : bool := match rotn o with D90 | D270 => true | _ => false end.
Definition b2z (b : bool) : Z := if b then 1 else 0.
Definition spec_madctl (bgr : bool) (o : orient) (btt rtl : bool) : Z :=
  128 * b2z (spec_my o) + 64 * b2z (spec_mx o) + 32 * b2z (spec_mv o)
  + 16 * b2z btt + 8 * b2z bgr + 4 * b2z rtl.

(* C15: the orientation that shows the picture pre-transformed by one generator, found by geometry
   alone on a small asymmetric panel (2 x 3, offset (1,2)): the unique orientation among the eight whose
   cells agree with the pre-transformed picture. *)
Definition sample_points (lw lh : Z) : list (Z * Z) :=
  flat_map (fun j => map (fun i => (Z.of_nat i, Z.of_nat j)) (seq 0 (Z.to_nat lw))) (seq 0 (Z.to_nat lh)).
Definition lsize_of (w h : Z) (o : orient) : Z * Z :=
  match rotn o with D0 | D180 => (w, h) | _ => (h, w) end.
Inductive gen := GRot (r : rot) | GFlipH | GFlipV.
Definition pre_transform (lw lh : Z) (g : gen) (x y : Z) : Z * Z :=
  (* (lw, lh): logical size under the ORIGINAL orientation *)
  match g with
  | GRot r => rot_cw lw lh r x y
  | GFlipH => (lw - 1 - x, y)
  | GFlipV => (x, lh - 1 - y)
  end.
Definition pair_eqb (a b : Z * Z) : bool := (fst a =? fst b) && (snd a =? snd b).
Definition shows_pretransformed (o o' : orient) (g : gen) : bool :=
  let w := 2 in let h := 3 in
  let '(lw, lh) := lsize_of w h o in
  let '(lw', lh') := lsize_of w h o' in
  (* size of the new logical image must be the pre-image size of the transform *)
  (match g with GRot D90 | GRot D270 => (lw' =? lh) && (lh' =? lw) | _ => (lw' =? lw) && (lh' =? lh) end) &&
  forallb (fun p => let '(x, y) := p in
                    let '(x', y') := pre_transform lw lh g x y in
                    pair_eqb (spec_cell w h 1 2 o' x y) (spec_cell w h 1 2 o x' y'))
          (sample_points lw' lh').
Definition eight : list orient :=
  [ {| rotn := D0; mir := false |}; {| rotn := D0; mir := true |}; {| rotn := D90; mir := false |};
    {| rotn := D90; mir := true |}; {| rotn := D180; mir := false |}; {| rotn := D180; mir := true |};
    {| rotn := D270; mir := false |}; {| rotn := D270; mir := true |} ].
Definition spec_apply_gen (o : orient) (g : gen) : list orient :=
  filter (fun o' => shows_pretransformed o o' g) eight.

(* C15: angle parsing *)
Definition spec_angle (a : Z) : option (Z * Z) :=
  if a mod 90 =? 0 then Some ((a mod 360) / 90, a mod 360) else None.
