(* Spec.v — the short, readable specifications the properties are stated against. *)
Require Import Model.Base Model.Orient.

(* C09: which configuration error Builder::init must report, if any *)
Definition spec_cfg_error (FW FH w h ox oy : Z) : option cfgerr :=
  if (w =? 0) || (h =? 0) || (FW <? w) || (FH <? h) then Some InvalidDisplaySize
  else if (FW <? ox + w) || (FH <? oy + h) then Some InvalidDisplayOffset
  else None.

(* C01: rotate the logical point clockwise inside the native w x h window, mirror, shift *)
Definition rot_cw (w h : Z) (r : rot) (x y : Z) : Z * Z :=
  match r with
  | D0 => (x, y)
  | D90 => (w - 1 - y, x)
  | D180 => (w - 1 - x, h - 1 - y)
  | D270 => (y, h - 1 - x)
  end.
Definition spec_cell (w h ox oy : Z) (o : orient) (x y : Z) : Z * Z :=
  let '(px, py) := rot_cw w h (rotn o) x y in
  let px := if mir o then w - 1 - px else px in
  (ox + px, oy + py).
