(* Events.v — what crosses the `Interface` trait (L1) and what reaches pins / the SPI device (L2). *)
Require Import Model.Base Model.Orient Model.Dcs.

(* L1: calls on the Interface trait, plus the two things Builder::init touches beside it
   (reset pin, delay source). Pixels cross the trait already encoded as words. *)
Inductive event :=
| ECmd (op : Z) (args : list Z)            (* Interface::send_command *)
| EPixels (px : list (list Z))             (* Interface::send_pixels, one word list per pixel *)
| ERepeat (px : list Z) (count : Z)        (* Interface::send_repeated_pixel *)
| EDelay (ns : Z)                          (* DelayNs::delay_ns (consecutive delays coalesced) *)
| ERstLow | ERstHigh.                      (* reset pin *)

Definition event_eqb (a b : event) : bool :=
  match a, b with
  | ECmd o1 a1, ECmd o2 a2 => (o1 =? o2) && zlist_eqb a1 a2
  | EPixels p1, EPixels p2 => list_eqb zlist_eqb p1 p2
  | ERepeat p1 c1, ERepeat p2 c2 => zlist_eqb p1 p2 && (c1 =? c2)
  | EDelay n1, EDelay n2 => n1 =? n2
  | ERstLow, ERstLow => true
  | ERstHigh, ERstHigh => true
  | _, _ => false
  end.
Definition events_eqb := list_eqb event_eqb.

Lemma event_eqb_eq a b : event_eqb a b = true <-> a = b.
Proof.
  destruct a, b; cbn; try (split; congruence).
  - rewrite andb_true_iff, Z.eqb_eq, zlist_eqb_eq. split; [intros [-> ->]; auto | intros E; inversion E; auto].
  - rewrite (list_eqb_eq zlist_eqb zlist_eqb_eq). split; [intros ->; auto | intros E; inversion E; auto].
  - rewrite andb_true_iff, Z.eqb_eq, zlist_eqb_eq. split; [intros [-> ->]; auto | intros E; inversion E; auto].
  - rewrite Z.eqb_eq. split; [intros ->; auto | intros E; inversion E; auto].
Qed.
Lemma events_eqb_eq a b : events_eqb a b = true <-> a = b.
Proof. apply list_eqb_eq, event_eqb_eq. Qed.

(* merge consecutive delays: `delay_ms(120)` and `delay_us(120_000)` are the same wait *)
Fixpoint coalesce (t : list event) : list event :=
  match t with
  | EDelay a :: rest =>
      match coalesce rest with
      | EDelay b :: rest' => EDelay (a + b) :: rest'
      | r => EDelay a :: r
      end
  | e :: rest => e :: coalesce rest
  | [] => []
  end.

(* InterfaceExt::write_command : 16-byte zeroed scratch, fill, send opcode + first n bytes.
   All command types write at most 6 bytes, so the scratch buffer never panics (proved in Proofs). *)
Definition write_command (c : dcs) : outcome event :=
  do r <- fill_params_buf c (repeat 0 16);
  let '(n, buf) := r in Ok (ECmd (instruction c) (firstn (Z.to_nat n) buf)).

Definition write_raw (op : Z) (args : list Z) : event := ECmd op args.

(* L2: operations on pins and on the SPI device *)
Inductive l2op :=
| ODc (high : bool)
| OSpi (bytes : list Z)        (* one SpiDevice::transaction with one Write operation *)
| OPin (i : Z) (high : bool)   (* data pin i of the parallel bus *)
| OWr (high : bool)
| ORst (high : bool)
| ODelay (ns : Z).

Definition l2op_eqb (a b : l2op) : bool :=
  match a, b with
  | ODc x, ODc y => Bool.eqb x y
  | OSpi x, OSpi y => zlist_eqb x y
  | OPin i x, OPin j y => (i =? j) && Bool.eqb x y
  | OWr x, OWr y => Bool.eqb x y
  | ORst x, ORst y => Bool.eqb x y
  | ODelay x, ODelay y => x =? y
  | _, _ => false
  end.
Definition l2ops_eqb := list_eqb l2op_eqb.
