(* Dcs.v — model of src/dcs.rs and src/dcs/*.rs : command types, opcodes, parameter encoders,
   MADCTL bit operations, write_command / write_raw. *)
Require Import Model.Base Model.Orient.

Inductive bpp := Three | Eight | Twelve | Sixteen | Eighteen | TwentyFour.
Definition bpp_val (b : bpp) : Z :=
  match b with Three => 1 | Eight => 2 | Twelve => 3 | Sixteen => 5 | Eighteen => 6 | TwentyFour => 7 end.
Definition all_bpp := [Three; Eight; Twelve; Sixteen; Eighteen; TwentyFour].

(* BitsPerPixel::from_rgb_color : sum of trailing ones of MAX_R, MAX_G, MAX_B; other sums panic *)
Definition bpp_of_bits (n : Z) : outcome bpp :=
  if n =? 3 then Ok Three else if n =? 8 then Ok Eight else if n =? 12 then Ok Twelve
  else if n =? 16 then Ok Sixteen else if n =? 18 then Ok Eighteen else if n =? 24 then Ok TwentyFour
  else Panic.

Inductive dcs :=
| SoftReset | EnterSleepMode | ExitSleepMode | EnterPartialMode | EnterNormalMode
| SetDisplayOff | SetDisplayOn | ExitIdleMode | EnterIdleMode | WriteMemoryStart
| SetAddressMode (b : Z)
| SetPixelFormat (dpi dbi : bpp)
| SetColumnAddress (s e : Z)
| SetPageAddress (s e : Z)
| SetScrollArea (tfa vsa bfa : Z)
| SetScrollStart (o : Z)
| SetTearingEffect (t : tearing)
| SetInvertMode (inverted : bool).

(* DcsCommand::instruction *)
Definition instruction (c : dcs) : Z :=
  match c with
  | SoftReset => 0x01 | EnterSleepMode => 0x10 | ExitSleepMode => 0x11
  | EnterPartialMode => 0x12 | EnterNormalMode => 0x13
  | SetDisplayOff => 0x28 | SetDisplayOn => 0x29
  | ExitIdleMode => 0x38 | EnterIdleMode => 0x39 | WriteMemoryStart => 0x2C
  | SetAddressMode _ => 0x36
  | SetPixelFormat _ _ => 0x3A
  | SetColumnAddress _ _ => 0x2A
  | SetPageAddress _ _ => 0x2B
  | SetScrollArea _ _ _ => 0x33
  | SetScrollStart _ => 0x37
  | SetTearingEffect TeOff => 0x34
  | SetTearingEffect _ => 0x35
  | SetInvertMode false => 0x20
  | SetInvertMode true => 0x21
  end.

(* u16::to_be_bytes *)
Definition be16 (v : Z) : list Z := [v / 256; v mod 256].
Definition de16 (hi lo : Z) : Z := 256 * hi + lo.

(* buffer[i] = v ; Panic (index out of bounds) when i >= len *)
Fixpoint upd (l : list Z) (i : nat) (v : Z) : outcome (list Z) :=
  match l, i with
  | [], _ => Panic
  | _ :: t, O => Ok (v :: t)
  | h :: t, S i' => do t' <- upd t i' v; Ok (h :: t')
  end.

(* consecutive writes starting at index i *)
Fixpoint upds (l : list Z) (i : nat) (vs : list Z) : outcome (list Z) :=
  match vs with
  | [] => Ok l
  | v :: vs' => do l' <- upd l i v; upds l' (S i) vs'
  end.

Definition pixel_format_byte (dpi dbi : bpp) : Z := Z.lor (Z.shiftl (bpp_val dpi) 4) (bpp_val dbi).

(* the parameter bytes a command writes, in order *)
Definition params (c : dcs) : list Z :=
  match c with
  | SetAddressMode b => [b]
  | SetPixelFormat dpi dbi => [pixel_format_byte dpi dbi]
  | SetColumnAddress s e => be16 s ++ be16 e
  | SetPageAddress s e => be16 s ++ be16 e
  | SetScrollArea t v b => be16 t ++ be16 v ++ be16 b
  | SetScrollStart o => be16 o
  | SetTearingEffect TeVertical => [0]
  | SetTearingEffect TeHV => [1]
  | _ => []
  end.

(* DcsCommand::fill_params_buf : writes params at the front of the buffer, returns the count.
   Every type writes index by index or slice by slice from the front; a too-short buffer panics. *)
Definition fill_params_buf (c : dcs) (buf : list Z) : outcome (Z * list Z) :=
  do buf' <- upds buf 0 (params c); Ok (Z.of_nat (length (params c)), buf').

(* ---- MADCTL bit operations (src/dcs/set_address_mode.rs) ---- *)
Definition with_color_order (b : Z) (bgr : bool) : Z :=
  if bgr then Z.lor b 0x08 else Z.land b 0xF7.

Definition with_orientation (b : Z) (o : orient) : Z :=
  let r0 := Z.land b 0x1F in
  let m := from_orient o in
  let r1 := if rev_rows m then Z.lor r0 0x80 else r0 in
  let r2 := if rev_cols m then Z.lor r1 0x40 else r1 in
  if swap m then Z.lor r2 0x20 else r2.

Definition refresh_value (btt rtl : bool) : Z :=
  match btt, rtl with
  | false, false => 0x00 | false, true => 0x04 | true, false => 0x10 | true, true => 0x14
  end.
Definition with_refresh_order (b : Z) (btt rtl : bool) : Z :=
  Z.lor (Z.land b 0xEB) (refresh_value btt rtl).

Definition madctl_new (bgr : bool) (o : orient) (btt rtl : bool) : Z :=
  with_refresh_order (with_orientation (with_color_order 0 bgr) o) btt rtl.

(* From<&ModelOptions> for SetAddressMode *)
Definition madctl_of_opts (o : opts) : Z :=
  with_refresh_order (with_orientation (with_color_order 0 (o_bgr o)) (o_orient o)) (o_btt o) (o_rtl o).

(* chains of the three `with_*` setters *)
Inductive setter := SColor (bgr : bool) | SOrient (o : orient) | SRefresh (btt rtl : bool).
Definition apply_setter (b : Z) (s : setter) : Z :=
  match s with
  | SColor c => with_color_order b c
  | SOrient o => with_orientation b o
  | SRefresh v h => with_refresh_order b v h
  end.
Definition apply_setters (b : Z) (l : list setter) : Z := fold_left apply_setter l b.
