(* Builder.v — model of Builder::init (src/builder.rs:150-201): validation, reset, model init. *)
Require Import Model.Base Model.Orient Model.Dcs Model.Events.

(* the three `if`s, in source order, on u32-widened values *)
Definition init_check (md : mode) (FW FH w h ox oy : Z) : outcome unit :=
  if (w =? 0) || (h =? 0) || (w >? FW) || (h >? FH) then Err (ECfg InvalidDisplaySize)
  else
    do sx <- add_u md 32 w ox;
    if sx >? FW then Err (ECfg InvalidDisplayOffset)
    else
      do sy <- add_u md 32 h oy;
      if sy >? FH then Err (ECfg InvalidDisplayOffset)
      else Ok tt.

(* hardware reset pulse (delay_us(10) = 10_000 ns) or SoftReset *)
Definition reset_events (rst : bool) : list event :=
  if rst then [ERstLow; EDelay 10000; ERstHigh] else [ECmd 0x01 []].

(* driver state held by `Display` *)
Record dstate := { d_opts : opts; d_madctl : Z; d_sleeping : bool }.

(* `minit` is the trace and result (returned MADCTL byte) of Model::init for these options on this
   interface kind; FW, FH the model's FRAMEBUFFER_SIZE. *)
Definition builder_init (md : mode) (FW FH : Z) (rst : bool) (o : opts)
           (minit : list event * outcome Z) : list event * outcome dstate :=
  match init_check md FW FH (o_w o) (o_h o) (o_ox o) (o_oy o) with
  | Ok _ =>
      let '(t, r) := minit in
      (reset_events rst ++ t,
       do m <- r; Ok {| d_opts := o; d_madctl := m; d_sleeping := false |})
  | Err e => ([], Err e)
  | Panic => ([], Panic)
  | Diverge => ([], Diverge)
  end.
