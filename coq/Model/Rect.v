(* Rect.v — model of embedded-graphics-core 0.4.1 `Rectangle` (modelled from its pinned source, not
   verified). Coordinates are mathematical integers: for rectangles that are valid for
   embedded-graphics (`rect_valid`) none of the i32/u32 operations below can overflow. *)
Require Import Model.Base.

Record rect := { rx : Z; ry : Z; rw : Z; rh : Z }.

(* top_left + size is computed before the -1, so it must itself be representable *)
Definition rect_valid (r : rect) : Prop :=
  - 2 ^ 31 <= rx r /\ - 2 ^ 31 <= ry r /\ 0 <= rw r /\ 0 <= rh r /\
  rx r + rw r < 2 ^ 31 /\ ry r + rh r < 2 ^ 31.
Definition rect_validb (r : rect) : bool :=
  (- 2 ^ 31 <=? rx r) && (- 2 ^ 31 <=? ry r) && (0 <=? rw r) && (0 <=? rh r) &&
  (rx r + rw r <? 2 ^ 31) && (ry r + rh r <? 2 ^ 31).

Definition rect_zero : rect := {| rx := 0; ry := 0; rw := 0; rh := 0 |}.

Definition rect_eqb (a b : rect) : bool :=
  (rx a =? rx b) && (ry a =? ry b) && (rw a =? rw b) && (rh a =? rh b).

(* Rectangle::bottom_right *)
Definition bottom_right (r : rect) : option (Z * Z) :=
  if (0 <? rw r) && (0 <? rh r) then Some (rx r + rw r - 1, ry r + rh r - 1) else None.

(* Rectangle::contains *)
Definition contains (r : rect) (p : Z * Z) : bool :=
  let '(x, y) := p in
  if (rx r <=? x) && (ry r <=? y) then
    match bottom_right r with
    | Some (bx, by_) => (x <=? bx) && (y <=? by_)
    | None => false
    end
  else false.

(* fn overlaps(first, second) *)
Definition overlaps (a1 a2 b1 b2 : Z) : bool :=
  ((b1 <=? a1) && (a1 <=? b2)) || ((b1 <=? a2) && (a2 <=? b2)) || ((a1 <? b1) && (a2 >? b2)).

(* Rectangle::with_corners *)
Definition with_corners (c1 c2 : Z * Z) : rect :=
  {| rx := Z.min (fst c1) (fst c2); ry := Z.min (snd c1) (snd c2);
     rw := Z.abs (fst c1 - fst c2) + 1; rh := Z.abs (snd c1 - snd c2) + 1 |}.

(* Rectangle::intersection (self = a, other = b) *)
Definition intersection (a b : rect) : rect :=
  match bottom_right b, bottom_right a with
  | Some (obx, oby), Some (sbx, sby) =>
      if overlaps (rx a) sbx (rx b) obx && overlaps (ry a) sby (ry b) oby
      then with_corners (Z.max (rx a) (rx b), Z.max (ry a) (ry b)) (Z.min sbx obx, Z.min sby oby)
      else rect_zero
  | Some _, None => if contains b (rx a, ry a) then a else rect_zero
  | None, Some _ => if contains a (rx b, ry b) then b else rect_zero
  | None, None => rect_zero
  end.

(* Rectangle::points() : row-major *)
Definition row_points (x y : Z) (w : nat) : list (Z * Z) :=
  map (fun i => (x + Z.of_nat i, y)) (seq 0 w).
Definition points (r : rect) : list (Z * Z) :=
  flat_map (fun j => row_points (rx r) (ry r + Z.of_nat j) (Z.to_nat (rw r))) (seq 0 (Z.to_nat (rh r))).

(* k-th point in row-major order *)
Definition point_at (r : rect) (k : Z) : Z * Z := (rx r + k mod rw r, ry r + k / rw r).

(* ---- the parts used by TestImage ---- *)
Definition sat_sub_u32 (a b : Z) : Z := Z.max 0 (a - b).
Definition sat_add_u32 (a b : Z) : Z := Z.min u32max (a + b).
(* u32::saturating_as::<i32>() *)
Definition sat_as_i32 (a : Z) : Z := Z.min a (2 ^ 31 - 1).

Definition center_offset (w h : Z) : Z * Z := (sat_sub_u32 w 1 / 2, sat_sub_u32 h 1 / 2).
Definition center (r : rect) : Z * Z :=
  let '(cx, cy) := center_offset (rw r) (rh r) in (rx r + cx, ry r + cy).
Definition with_center (c : Z * Z) (w h : Z) : rect :=
  let '(cx, cy) := center_offset w h in {| rx := fst c - cx; ry := snd c - cy; rw := w; rh := h |}.
(* Rectangle::offset with a negative offset -n (n > 0): size shrinks by 2n, saturating *)
Definition offset_neg (r : rect) (n : Z) : rect :=
  with_center (center r) (sat_sub_u32 (rw r) (2 * n)) (sat_sub_u32 (rh r) (2 * n)).

Inductive anchor_x := AxLeft | AxCenter | AxRight.
(* i32 division truncates toward zero *)
Definition resized_width (r : rect) (w : Z) (a : anchor_x) : rect :=
  let delta := Z.max (sat_as_i32 (rw r)) 1 - Z.max (sat_as_i32 w) 1 in
  {| rx := rx r + match a with AxLeft => 0 | AxCenter => Z.quot delta 2 | AxRight => delta end;
     ry := ry r; rw := w; rh := rh r |}.
(* Rectangle::resized(size, AnchorPoint::TopLeft) *)
Definition resized_top_left (r : rect) (w h : Z) : rect :=
  {| rx := rx r; ry := ry r; rw := w; rh := h |}.
