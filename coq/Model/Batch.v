(* Batch.v — model of src/batch.rs: RowIterator and BlockIterator as eager list functions.
   heapless::Vec<_, CAP>::push fails when len = CAP; extend_from_slice is all-or-nothing. *)
Require Import Model.Base.

Definition pixel := (Z * Z * Z)%type.       (* x, y (i32), colour (raw) *)
Record prow := { rxl : Z; rxr : Z; ryy : Z; rcs : list Z }.
Record pblock := { bxl : Z; bxr : Z; byt : Z; byb : Z; bcs : list Z }.

Definition wadd1_u16 (x : Z) : Z := (x + 1) mod 65536.   (* u16::wrapping_add(1) *)

Section Rows.
Variable cap : nat.                          (* MAX_ROW_SIZE *)

(* one step of RowIterator::next's loop body for a pixel; acc = None <-> first_pixel.
   Returns (new accumulator, rows emitted, stop) — stop = the `return None` after a failed push
   into an empty vector (only possible with cap = 0). *)
Definition row_step (acc : option prow) (p : pixel) : option prow * list prow * bool :=
  let '(px, py, c) := p in
  if (px <? 0) || (py <? 0) then (acc, [], false)
  else
    let x := cast_u 16 px in
    let y := cast_u 16 py in
    let fresh := {| rxl := x; rxr := x; ryy := y; rcs := [c] |} in
    match acc with
    | None => if (0 <? cap)%nat then (Some fresh, [], false) else (None, [], true)
    | Some r =>
        if (x =? wadd1_u16 (rxr r)) && (y =? ryy r) && (length (rcs r) <? cap)%nat
        then (Some {| rxl := rxl r; rxr := x; ryy := ryy r; rcs := rcs r ++ [c] |}, [], false)
        else if (0 <? cap)%nat then (Some fresh, [r], false) else (None, [], true)
    end.

Fixpoint rows_go (acc : option prow) (ps : list pixel) : list prow :=
  match ps with
  | [] => match acc with None => [] | Some r => [r] end
  | p :: ps' =>
      let '(acc', out, stop) := row_step acc p in
      if stop then out else out ++ rows_go acc' ps'
  end.
Definition rows_of (ps : list pixel) : list prow := rows_go None ps.
End Rows.

Section Blocks.
Variable md : mode.
Variable bcap : nat.                         (* MAX_BLOCK_SIZE *)

(* BlockIterator::next for one incoming row. Returns (acc', emitted blocks) or Panic
   (`expect("never")` on an over-long row; `y_bottom + 1` overflow in debug). *)
Definition block_step (acc : option pblock) (r : prow) : outcome (option pblock * list pblock) :=
  let fresh := {| bxl := rxl r; bxr := rxr r; byt := ryy r; byb := ryy r; bcs := rcs r |} in
  match acc with
  | None =>
      if (length (rcs r) <=? bcap)%nat then Ok (Some fresh, []) else Panic
  | Some b =>
      do nb <- add_u md 16 (byb b) 1;
      if (ryy r =? nb) && (rxl r =? bxl b) && (rxr r =? bxr b)
         && (length (bcs b) + length (rcs r) <=? bcap)%nat
      then Ok (Some {| bxl := bxl b; bxr := bxr b; byt := byt b; byb := ryy r; bcs := bcs b ++ rcs r |}, [])
      else if (length (rcs r) <=? bcap)%nat then Ok (Some fresh, [b]) else Panic
  end.

(* blocks produced before a panic are still rendered: (blocks, outcome) *)
Fixpoint blocks_go (acc : option pblock) (rs : list prow) : list pblock * outcome unit :=
  match rs with
  | [] => (match acc with None => [] | Some b => [b] end, Ok tt)
  | r :: rs' =>
      match block_step acc r with
      | Ok (acc', out) => let '(bs, o) := blocks_go acc' rs' in (out ++ bs, o)
      | Err e => ([], Err e) | Panic => ([], Panic) | Diverge => ([], Diverge)
      end
  end.
Definition blocks_of (rs : list prow) := blocks_go None rs.
End Blocks.
