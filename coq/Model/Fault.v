(* Fault.v — Display calls over the real transports, and the fault model: the k-th fallible pin / bus
   operation of a call returns an error. Composes the L1 driver model with Model/Spi.v and
   Model/Parallel.v. Every Rust function involved propagates a failing operation with `?` at once, so a
   faulted call is the fault-free operation sequence cut after the failing operation; what remains to be
   modelled is the state left behind (bus cache cleared iff a data pin failed inside set_value). *)
Require Import Model.Base Model.Events Model.Spi Model.Parallel.
Open Scope Z_scope.

(* ---------------------------------------------------------------- transport state *)
Inductive tstate :=
| TSpi (n : Z) (buf : list Z)             (* bytes per pixel, staging buffer *)
| TPar (w : nat) (last : option Z).       (* bus width, cache *)

Definition fallible2 (o : l2op) : bool := match o with ODelay _ => false | _ => true end.

(* every op of one interface call on the parallel transport, annotated with the cache once that op
   has returned successfully (inside set_value the cache is cleared until the last pin is written) *)
Definition annot_word (w : nat) (last : option Z) (x : Z) : list (l2op * option Z) * option Z :=
  let '(pins, l1) := bus_set_value w last x in
  ((OWr false, last) :: combine pins (repeat None (length pins - 1) ++ [l1]) ++ [(OWr true, l1)], l1).
Fixpoint annot_words (w : nat) (last : option Z) (ws : list Z) : list (l2op * option Z) * option Z :=
  match ws with
  | [] => ([], last)
  | x :: r => let '(a1, l1) := annot_word w last x in
              let '(a2, l2) := annot_words w l1 r in (a1 ++ a2, l2)
  end.
Definition annot_event (w : nat) (last : option Z) (e : event) : list (l2op * option Z) * option Z :=
  match e with
  | ECmd op args =>
      let '(a1, l1) := annot_word w last op in
      let '(a2, l2) := annot_words w l1 args in
      ((ODc false, last) :: a1 ++ (ODc true, l1) :: a2, l2)
  | EPixels px => annot_words w last (concat px)
  | ERepeat p c =>
      if (c =? 0) || (Z.of_nat (length p) =? 0) then ([], last)
      else match is_same p with
           | Some x => let '(a1, l1) := annot_word w last x in
                       (a1 ++ map (fun o => (o, l1)) (strobes (c * Z.of_nat (length p) - 1)), l1)
           | None => annot_words w last (concat (repeat p (Z.to_nat c)))
           end
  | EDelay ns => ([(ODelay ns, last)], last)
  | ERstLow => ([(ORst false, last)], last)
  | ERstHigh => ([(ORst true, last)], last)
  end.

(* one L1 event through the transport: ops annotated with the transport state after each op, the state
   at the end, outcome. `sane` is false if the annotation and the proved model disagree (flagged). *)
Definition trans_event (md : mode) (ts : tstate) (e : event) : list (l2op * tstate) * tstate * outcome unit * bool :=
  match ts with
  | TSpi n buf =>
      let '(ops, buf', o) := spi_event true n buf e in
      (map (fun x => (x, TSpi n buf)) ops, TSpi n buf', o, true)
  | TPar w last =>
      let '(ops, l', o) := par_event true md w last e in
      let '(an, l2) := annot_event w last e in
      (map (fun x => (fst x, TPar w (snd x))) an, TPar w l', o, l2ops_eqb (map fst an) ops)
  end.

Fixpoint trans_events (md : mode) (ts : tstate) (t : list event) : list (l2op * tstate) * tstate * outcome unit * bool :=
  match t with
  | [] => ([], ts, Ok tt, true)
  | e :: r =>
      let '(a1, ts1, o1, s1) := trans_event md ts e in
      match o1 with
      | Ok _ => let '(a2, ts2, o2, s2) := trans_events md ts1 r in (a1 ++ a2, ts2, o2, s1 && s2)
      | _ => (a1, ts1, o1, s1)
      end
  end.

(* position in the op list of the k-th fallible op *)
Fixpoint nth_fallible (k : nat) (i : nat) (l : list (l2op * tstate)) : option nat :=
  match l with
  | [] => None
  | (o, _) :: r =>
      if fallible2 o then match k with O => Some i | S k' => nth_fallible k' (S i) r end
      else nth_fallible k (S i) r
  end.

Definition tag_of (o : l2op) (ts : tstate) : ierr :=
  match ts, o with
  | TSpi _ _, ODc _ => SpiDc
  | TSpi _ _, _ => SpiSpi
  | TPar _ _, OPin _ _ => ParBus
  | TPar _ _, ODc _ => ParDc
  | TPar _ _, _ => ParWr
  end.

Definition clear_cache (ts : tstate) : tstate := match ts with TPar w _ => TPar w None | x => x end.

(* apply a fault at the k-th fallible op (k < 0: none). Returns: Some (ops up to and including the
   failing one, failing op, transport state afterwards) *)
Definition cut_fault (k : Z) (ts0 : tstate) (an : list (l2op * tstate)) : option (list l2op * l2op * tstate) :=
  if k <? 0 then None
  else match nth_fallible (Z.to_nat k) 0 an with
       | None => None
       | Some i =>
           let failing := fst (nth i an (OWr true, ts0)) in
           let before := match i with O => ts0 | S j => snd (nth j an (OWr true, ts0)) end in
           Some (map fst (firstn (S i) an), failing,
                 match failing with OPin _ _ => clear_cache before | _ => before end)
       end.

