(* Color.v — model of src/interface.rs colour -> bus-word conversion. Colours are raw integers:
   Rgb565 raw = r*2048 + g*32 + b (r,b < 32, g < 64); Rgb666 raw = r*4096 + g*64 + b (all < 64). *)
Require Import Model.Base Model.InitLang.

Definition raw565 (r g b : Z) : Z := r * 2048 + g * 32 + b.
Definition raw666 (r g b : Z) : Z := r * 4096 + g * 64 + b.

(* rgb565_to_bytes: ToBytes::to_be_bytes of the RawU16 storage *)
Definition enc565_8 (raw : Z) : list Z := [raw / 256; raw mod 256].
(* rgb565_to_u16: from_ne_bytes(to_ne_bytes) = the raw u16 *)
Definition enc565_16 (raw : Z) : list Z := [raw].
(* rgb666_to_bytes: [r, g, b].map(|x| x << 2) *)
Definition enc666_8 (raw : Z) : list Z :=
  [(raw / 4096) * 4; ((raw / 64) mod 64) * 4; (raw mod 64) * 4].

(* what a MIPI-DCS controller reads back from the words, for the announced format *)
Definition dec565_8 (ws : list Z) : option (Z * Z * Z) :=
  match ws with
  | [hi; lo] => let v := hi * 256 + lo in Some (v / 2048, (v / 32) mod 64, v mod 32)
  | _ => None
  end.
Definition dec565_16 (ws : list Z) : option (Z * Z * Z) :=
  match ws with
  | [v] => Some (v / 2048, (v / 32) mod 64, v mod 32)
  | _ => None
  end.
(* 18 bpp over an 8-bit path: three bytes, the six bits left-aligned (low two bits ignored) *)
Definition dec666_8 (ws : list Z) : option (Z * Z * Z) :=
  match ws with
  | [r; g; b] => Some (r / 4, g / 4, b / 4)
  | _ => None
  end.

Definition enc_of (col : colorfmt) (word16 : bool) : Z -> list Z :=
  match col, word16 with
  | CRgb565, false => enc565_8
  | CRgb565, true => enc565_16
  | CRgb666, _ => enc666_8
  end.
