(* TestImage.v — model of `TestImage::draw` (src/test_image.rs) as the sequence of DrawTarget calls it
   performs, plus the picture those calls leave on a clipping target. Definitions only.

   Modelled from: src/test_image.rs and embedded-graphics-core 0.4.1 (Rectangle::{offset, center,
   with_center, resized, resized_width, contains, bottom_right, points}, Point + Size, Point - Size,
   Size::saturating_sub, center_offset; DrawTarget::{fill_contiguous, fill_solid} contract).
   Modelled, not verified against the Rust by proof; the constants and glyph bitmaps come from
   Gen/Consts.v (regenerated from the source on every run).

   Arithmetic profile: Debug (overflow checks and debug_assert! enabled) — the strictest one; a run
   without panic in Debug performs the same operations in Release.

   Every i32/u32 arithmetic site on the path is modelled with a checked operation:
     i32::try_from(u32).unwrap()            -> i32_try_from_u32      (draw, draw_border)
     BORDER_WIDTH + BORDER_PADDING          -> u32_add
     -x            (i32 negation)           -> i32_neg               (draw, draw_border, Rectangle::offset)
     (-offset) as u32 * 2                   -> u32_mul               (Rectangle::offset)
     Size::saturating_add / saturating_sub  -> saturating, cannot panic
     Point + Size, Point::sub_size          -> debug_assert!(dim as i32 >= 0), then i32 + / -
     Point - Point                          -> i32 -                 (Rectangle::bottom_right)
     resize_*_mut: saturating_as.max(1) - saturating_as.max(1), top_left.x += ...   -> i32_sub, i32_add
     area.size.width / 3                    -> u32 division by a non-zero literal, cannot panic
     rect.top_left.y += 1                   -> i32_add               (marker loop)
     rect.size.width -= 1                   -> guarded by `width > 0`, cannot underflow
   Rectangle::points() uses saturating_add / saturating_as only and cannot panic. *)
Require Import Model.Base Model.Rect.
Require Import Gen.Consts.
From Coq Require Ascii String.

(* RgbColor::{WHITE, BLACK, RED, GREEN, BLUE} *)
Inductive tcolor := TWhite | TBlack | TRed | TGreen | TBlue.

Definition tcolor_eqb (a b : tcolor) : bool :=
  match a, b with
  | TWhite, TWhite | TBlack, TBlack | TRed, TRed | TGreen, TGreen | TBlue, TBlue => true
  | _, _ => false
  end.

(* One call on the DrawTarget.
   TFillContig  r cs : fill_contiguous(r, cs) — colour k of the stream goes to the k-th point of r in
                       row-major order; the stream may be shorter or longer than the area.
   TFillContigF r f  : fill_contiguous(r, r.points().map(f)) — the stream is a function of the point
                       it will be written to, and is exactly as long as the area (see `tiop_stream`).
   TFillSolid   r c  : fill_solid(r, c). *)
Inductive tiop :=
| TFillContig (r : rect) (colors : list tcolor)
| TFillContigF (r : rect) (f : Z * Z -> tcolor)
| TFillSolid (r : rect) (c : tcolor).

Definition op_rect (op : tiop) : rect :=
  match op with TFillContig r _ => r | TFillContigF r _ => r | TFillSolid r _ => r end.

(* ---- checked machine arithmetic (Debug profile) ---- *)
Definition u32_add (a b : Z) : outcome Z := add_u Debug 32 a b.
Definition u32_mul (a b : Z) : outcome Z := mul_u Debug 32 a b.
Definition i32_add (a b : Z) : outcome Z := chk_i32 Debug (a + b).
Definition i32_sub (a b : Z) : outcome Z := chk_i32 Debug (a - b).
Definition i32_neg (a : Z) : outcome Z := chk_i32 Debug (- a).
(* i32::try_from(v: u32).unwrap() *)
Definition i32_try_from_u32 (v : Z) : outcome Z := if v <? 2 ^ 31 then Ok v else Panic.
(* `let width = other.width as i32; debug_assert!(width >= 0)` in Point + Size / Point::sub_size *)
Definition size_dim_as_i32 (w : Z) : outcome Z := if w <? 2 ^ 31 then Ok w else Panic.

(* impl Add<Size> for Point *)
Definition point_add_size (p : Z * Z) (s : Z * Z) : outcome (Z * Z) :=
  do w <- size_dim_as_i32 (fst s);
  do h <- size_dim_as_i32 (snd s);
  do x <- i32_add (fst p) w;
  do y <- i32_add (snd p) h;
  Ok (x, y).
(* Point::sub_size *)
Definition point_sub_size (p : Z * Z) (s : Z * Z) : outcome (Z * Z) :=
  do w <- size_dim_as_i32 (fst s);
  do h <- size_dim_as_i32 (snd s);
  do x <- i32_sub (fst p) w;
  do y <- i32_sub (snd p) h;
  Ok (x, y).

(* ---- the Rectangle methods used, with their panics ---- *)
(* Rectangle::center : top_left + center_offset(size) *)
Definition m_center (r : rect) : outcome (Z * Z) :=
  point_add_size (rx r, ry r) (center_offset (rw r) (rh r)).
(* Rectangle::with_center : center.sub_size(center_offset(size)) *)
Definition m_with_center (c : Z * Z) (w h : Z) : outcome rect :=
  do tl <- point_sub_size c (center_offset w h);
  Ok {| rx := fst tl; ry := snd tl; rw := w; rh := h |}.
(* Rectangle::offset *)
Definition m_offset (r : rect) (off : Z) : outcome rect :=
  do sz <- (if 0 <=? off then
              do d <- u32_mul (cast_u 32 off) 2;
              Ok (sat_add_u32 (rw r) d, sat_add_u32 (rh r) d)
            else
              do n <- i32_neg off;
              do d <- u32_mul (cast_u 32 n) 2;
              Ok (sat_sub_u32 (rw r) d, sat_sub_u32 (rh r) d));
  do c <- m_center r;
  m_with_center c (fst sz) (snd sz).

Inductive anchor_y := AyTop | AyCenter | AyBottom.
(* resize_width_mut / resize_height_mut on one axis: new position of the edge. `sel` is 0 for
   Left/Top, 1 for Center, 2 for Right/Bottom *)
Definition m_resize_pos (pos cur new : Z) (sel : Z) : outcome Z :=
  do delta <- i32_sub (Z.max (sat_as_i32 cur) 1) (Z.max (sat_as_i32 new) 1);
  i32_add pos (if sel =? 0 then 0 else if sel =? 1 then Z.quot delta 2 else delta).
Definition sel_x (a : anchor_x) : Z := match a with AxLeft => 0 | AxCenter => 1 | AxRight => 2 end.
Definition sel_y (a : anchor_y) : Z := match a with AyTop => 0 | AyCenter => 1 | AyBottom => 2 end.
(* Rectangle::resized_width *)
Definition m_resized_width (r : rect) (w : Z) (a : anchor_x) : outcome rect :=
  do x <- m_resize_pos (rx r) (rw r) w (sel_x a);
  Ok {| rx := x; ry := ry r; rw := w; rh := rh r |}.
(* Rectangle::resized(Size::new(w, h), anchor) with anchor.x() = ax, anchor.y() = ay:
   width first, then height *)
Definition m_resized (r : rect) (w h : Z) (ax : anchor_x) (ay : anchor_y) : outcome rect :=
  do x <- m_resize_pos (rx r) (rw r) w (sel_x ax);
  do y <- m_resize_pos (ry r) (rh r) h (sel_y ay);
  Ok {| rx := x; ry := y; rw := w; rh := h |}.
(* Rectangle::bottom_right : top_left + size - Point::new(1, 1) *)
Definition m_bottom_right (r : rect) : outcome (option (Z * Z)) :=
  if (0 <? rw r) && (0 <? rh r) then
    do p <- point_add_size (rx r, ry r) (rw r, rh r);
    do x <- i32_sub (fst p) 1;
    do y <- i32_sub (snd p) 1;
    Ok (Some (x, y))
  else Ok None.

(* ---- src/test_image.rs ---- *)
(* the closure of draw_border: BLACK inside inner_box, WHITE elsewhere (Rect.contains is the panic-free
   reading of Rectangle::contains; its only arithmetic, bottom_right, is checked in m_draw_border) *)
Definition border_color (inner : rect) (p : Z * Z) : tcolor :=
  if contains inner p then TBlack else TWhite.

(* fn draw_border. The closure calls inner_box.contains(p) -> bottom_right() for points of the
   bounding box; the model panics if that computation could panic at all (conservative: the real code
   evaluates it only when the target pulls a colour for a point right/below inner_box.top_left). *)
Definition m_draw_border (bb : rect) (width : Z) : outcome (list tiop) :=
  do w <- i32_try_from_u32 width;
  do off <- i32_neg w;
  do inner <- m_offset bb off;
  do _ <- m_bottom_right inner;
  Ok [TFillContigF bb (border_color inner)].

(* the iterator of Character::draw: 0 -> BLACK, anything else -> WHITE *)
Definition glyph_colors (g : list Z) : list tcolor :=
  map (fun d => if d =? 0 then TBlack else TWhite) g.
Definition GLYPH_W := 9.
Definition GLYPH_H := 11.
(* Character::new(data, center).draw(target) *)
Definition m_draw_char (g : list Z) (c : Z * Z) : outcome (list tiop) :=
  do r <- m_with_center c GLYPH_W GLYPH_H;
  Ok [TFillContig r (glyph_colors g)].

(* fn draw_color_bars *)
Definition m_draw_color_bars (area : rect) : outcome (list tiop) :=
  do cg <- m_center area;
  do gg <- m_draw_char gen_GLYPH_G cg;
  let w3 := rw area / 3 in
  do rr <- m_resized_width area w3 AxLeft;
  do cr <- m_center rr;
  do gr <- m_draw_char gen_GLYPH_R cr;
  do rb <- m_resized_width area w3 AxRight;
  do cb <- m_center rb;
  do gb <- m_draw_char gen_GLYPH_B cb;
  Ok ([TFillSolid area TGreen] ++ gg ++ [TFillSolid rr TRed] ++ gr ++ [TFillSolid rb TBlue] ++ gb).

(* `while rect.size.width > 0 { fill_solid(rect, WHITE); rect.top_left.y += 1; rect.size.width -= 1 }`
   The loop variant is rect.size.width; the recursion is on it (n = Z.to_nat (rw r), kept in step
   with rw r), so `width > 0` is the S case and `width -= 1` cannot underflow. *)
Fixpoint marker_loop (n : nat) (r : rect) : outcome (list tiop) :=
  match n with
  | O => Ok []
  | S n' =>
      do y' <- i32_add (ry r) 1;
      do rest <- marker_loop n' {| rx := rx r; ry := y'; rw := rw r - 1; rh := rh r |};
      Ok (TFillSolid r TWhite :: rest)
  end.

(* fn draw_top_left_marker; AnchorPoint::TopLeft = (AnchorX::Left, AnchorY::Top) *)
Definition m_draw_marker (area : rect) (size : Z) : outcome (list tiop) :=
  do r <- m_resized area size 1 AxLeft AyTop;
  marker_loop (Z.to_nat (rw r)) r.

Definition ti_bb (W H : Z) : rect := {| rx := 0; ry := 0; rw := W; rh := H |}.

(* The three groups of calls of <TestImage as Drawable>::draw on a target whose bounding_box() is
   Rectangle::new(Point::zero(), Size::new(W, H)). *)
Definition ti_area (W H : Z) : outcome rect :=
  do s <- u32_add gen_BORDER_WIDTH gen_BORDER_PADDING;
  do n <- i32_try_from_u32 s;
  do off <- i32_neg n;
  m_offset (ti_bb W H) off.
Definition ti_border_ops (W H : Z) : outcome (list tiop) := m_draw_border (ti_bb W H) gen_BORDER_WIDTH.
Definition ti_bar_ops (W H : Z) : outcome (list tiop) := do a <- ti_area W H; m_draw_color_bars a.
Definition ti_marker_ops (W H : Z) : outcome (list tiop) :=
  do a <- ti_area W H; m_draw_marker a gen_TOP_LEFT_MARKER_SIZE.

(* all DrawTarget calls, in source order *)
Definition ti_ops (W H : Z) : outcome (list tiop) :=
  do b <- ti_border_ops W H;
  do a <- ti_area W H;
  do bars <- m_draw_color_bars a;
  do mk <- m_draw_marker a gen_TOP_LEFT_MARKER_SIZE;
  Ok (b ++ bars ++ mk).

(* ---- the picture ---- *)
Definition in_rect (r : rect) (x y : Z) : bool :=
  (rx r <=? x) && (x <? rx r + rw r) && (ry r <=? y) && (y <? ry r + rh r).

(* what one call writes to cell (x, y), if anything: the cell must be a point of the call's area; a
   contiguous fill gives the k-th point (row-major) the k-th colour if the stream has one *)
Definition op_pixel (op : tiop) (x y : Z) : option tcolor :=
  match op with
  | TFillSolid r c => if in_rect r x y then Some c else None
  | TFillContigF r f => if in_rect r x y then Some (f (x, y)) else None
  | TFillContig r cs =>
      if in_rect r x y then
        let k := (y - ry r) * rw r + (x - rx r) in
        if k <? Z.of_nat (length cs) then nth_error cs (Z.to_nat k) else None
      else None
  end.

(* last writer wins: a later call has priority over an earlier one *)
Fixpoint pixel_of (ops : list tiop) (x y : Z) : option tcolor :=
  match ops with
  | [] => None
  | op :: rest =>
      match pixel_of rest x y with
      | Some c => Some c
      | None => op_pixel op x y
      end
  end.

(* clipping: only cells of the target exist *)
Definition in_target (W H x y : Z) : bool := (0 <=? x) && (x <? W) && (0 <=? y) && (y <? H).

Definition ti_pixel (W H : Z) (x y : Z) : option tcolor :=
  if in_target W H x y then
    match ti_ops W H with
    | Ok ops => pixel_of ops x y
    | _ => None
    end
  else None.

Definition zseq (n : Z) : list Z := map Z.of_nat (seq 0 (Z.to_nat n)).

(* rows of cells, top to bottom, each left to right; [] if the drawing panics *)
Definition ti_raster (W H : Z) : list (list (option tcolor)) :=
  match ti_ops W H with
  | Ok ops => map (fun y => map (fun x => pixel_of ops x y) (zseq W)) (zseq H)
  | _ => []
  end.

(* for eyeballing and for the differential harness: one character per cell *)
Definition cell_code (c : option tcolor) : Z :=
  match c with
  | None => 0 | Some TWhite => 1 | Some TBlack => 2 | Some TRed => 3 | Some TGreen => 4 | Some TBlue => 5
  end.
Definition ti_raster_codes (W H : Z) : list (list Z) := map (map cell_code) (ti_raster W H).

(* the colour stream a call hands to fill_contiguous, materialised (small areas only) *)
Definition tiop_stream (op : tiop) : list tcolor :=
  match op with
  | TFillContig _ cs => cs
  | TFillContigF r f => map f (points r)
  | TFillSolid _ _ => []
  end.
(* the same call with its stream materialised *)
Definition tiop_concrete (op : tiop) : tiop :=
  match op with
  | TFillContigF r f => TFillContig r (map f (points r))
  | _ => op
  end.

(* ---- names for the regions of the picture on targets of at least 32 x 32 ---- *)
Definition ti_w3 (W : Z) : Z := (W - 10) / 3.                 (* width of the red and of the blue bar *)
Definition ti_cy (H : Z) : Z := 5 + (H - 11) / 2.             (* centre row of the three glyphs *)
Definition ti_area32 (W H : Z) : rect := {| rx := 5; ry := 5; rw := W - 10; rh := H - 10 |}.
Definition ti_inner32 (W H : Z) : rect := {| rx := 1; ry := 1; rw := W - 2; rh := H - 2 |}.
Definition ti_red32 (W H : Z) : rect := {| rx := 5; ry := 5; rw := ti_w3 W; rh := H - 10 |}.
Definition ti_blue32 (W H : Z) : rect :=
  {| rx := W - 5 - ti_w3 W; ry := 5; rw := ti_w3 W; rh := H - 10 |}.
Definition glyph_box (cx cy : Z) : rect := {| rx := cx - 4; ry := cy - 5; rw := 9; rh := 11 |}.
Definition ti_gbox (W H : Z) : rect := glyph_box (5 + (W - 11) / 2) (ti_cy H).
Definition ti_rbox (W H : Z) : rect := glyph_box (5 + (ti_w3 W - 1) / 2) (ti_cy H).
Definition ti_bbox (W H : Z) : rect := glyph_box (W - 5 - ti_w3 W + (ti_w3 W - 1) / 2) (ti_cy H).
(* the white triangle: row 5 + i holds columns 5 .. 24 - i, i = 0 .. 19 *)
Definition ti_in_marker (x y : Z) : bool := (5 <=? y) && (y <=? 24) && (5 <=? x) && (x <=? 29 - y).

(* colour a glyph call leaves on a cell of its 9 x 11 box *)
Definition glyph_px (g : list Z) (r : rect) (x y : Z) : option tcolor :=
  nth_error (glyph_colors g) (Z.to_nat ((y - ry r) * 9 + (x - rx r))).

(* closed form of the picture on targets of at least 32 x 32 (proved equal to ti_pixel in
   Proofs/TestImageP.v): the calls in reverse source order, first hit wins *)
Definition ti_spec32 (W H x y : Z) : option tcolor :=
  if ti_in_marker x y then Some TWhite
  else if in_rect (ti_bbox W H) x y then glyph_px gen_GLYPH_B (ti_bbox W H) x y
  else if in_rect (ti_blue32 W H) x y then Some TBlue
  else if in_rect (ti_rbox W H) x y then glyph_px gen_GLYPH_R (ti_rbox W H) x y
  else if in_rect (ti_red32 W H) x y then Some TRed
  else if in_rect (ti_gbox W H) x y then glyph_px gen_GLYPH_G (ti_gbox W H) x y
  else if in_rect (ti_area32 W H) x y then Some TGreen
  else if in_rect (ti_inner32 W H) x y then Some TBlack
  else Some TWhite.

(* ---- the seven non-identity symmetries of the W x H cell grid, as maps on cells ----
   (the four that exchange the axes map the grid to itself only when W = H) *)
Definition sym_flip_x (W H : Z) (p : Z * Z) : Z * Z := (W - 1 - fst p, snd p).          (* mirror left-right *)
Definition sym_flip_y (W H : Z) (p : Z * Z) : Z * Z := (fst p, H - 1 - snd p).          (* mirror top-bottom *)
Definition sym_rot180 (W H : Z) (p : Z * Z) : Z * Z := (W - 1 - fst p, H - 1 - snd p).
Definition sym_transpose (W H : Z) (p : Z * Z) : Z * Z := (snd p, fst p).               (* main diagonal *)
Definition sym_antitranspose (W H : Z) (p : Z * Z) : Z * Z := (W - 1 - snd p, H - 1 - fst p).
Definition sym_rot90 (W H : Z) (p : Z * Z) : Z * Z := (W - 1 - snd p, fst p).
Definition sym_rot270 (W H : Z) (p : Z * Z) : Z * Z := (snd p, H - 1 - fst p).
(* the picture and its image under T disagree at cell p (p and T p both cells of the grid) *)
Definition ti_differs_at (W H : Z) (T : Z * Z -> Z * Z) (p : Z * Z) : Prop :=
  0 <= fst p < W /\ 0 <= snd p < H /\ 0 <= fst (T p) < W /\ 0 <= snd (T p) < H /\
  ti_pixel W H (fst (T p)) (snd (T p)) <> ti_pixel W H (fst p) (snd p).

(* an op's area lies inside the target: nothing is left to clipping *)
Definition rect_inside (W H : Z) (r : rect) : Prop :=
  0 <= rx r /\ 0 <= ry r /\ 0 <= rw r /\ 0 <= rh r /\ rx r + rw r <= W /\ ry r + rh r <= H.

(* one character per cell, for dumps: ? unpainted, W white, . black, R, G, B *)
Definition cell_char (c : option tcolor) : Ascii.ascii :=
  Ascii.ascii_of_nat
    match c with
    | None => 63 | Some TWhite => 87 | Some TBlack => 46 | Some TRed => 82 | Some TGreen => 71
    | Some TBlue => 66
    end%nat.
Definition row_string (r : list (option tcolor)) : String.string :=
  fold_right String.String String.EmptyString (map cell_char r).
Definition ti_dump (W H : Z) : list String.string := map row_string (ti_raster W H).
