(* Base.v — machine integers, build profile, outcome of a call, error taxonomy.
   Model of: Rust integer semantics as used by almindor/mipidsi (overflow panics with
   debug assertions, wraps without; `as` casts truncate). Modelled, not verified. *)
From Coq Require Export ZArith List Bool Lia.
Export ListNotations.
Open Scope Z_scope.

(* Build profile: debug builds check arithmetic overflow, release builds wrap. *)
Inductive mode := Debug | Release.

(* Which low-level source produced an interface error. *)
Inductive ierr :=
| IfRec      (* recording / abstract Interface failed (L1 fault) *)
| SpiSpi     (* SpiError::Spi *)
| SpiDc      (* SpiError::Dc *)
| ParBus     (* ParallelError::Bus *)
| ParDc      (* ParallelError::Dc *)
| ParWr.     (* ParallelError::Wr *)

Inductive cfgerr := InvalidDisplaySize | InvalidDisplayOffset | UnsupportedInterface.

Inductive err :=
| ECfg (c : cfgerr)            (* InitError::InvalidConfiguration *)
| EInitInterface (e : ierr)    (* InitError::Interface *)
| EInitResetPin                (* InitError::ResetPin *)
| EIf (e : ierr).              (* DI::Error returned by a Display method *)

(* Result of a call as the harness observes it. *)
Inductive res := ROk | RErr (e : err) | RPanic | RBudget.

Scheme Equality for ierr.
Scheme Equality for cfgerr.
Scheme Equality for err.
Scheme Equality for res.

Inductive outcome (A : Type) :=
| Ok (a : A)
| Err (e : err)
| Panic            (* arithmetic overflow (debug), failed unwrap/expect/assert, index out of range *)
| Diverge.         (* the real loop does not terminate *)
Arguments Ok {A} a.
Arguments Err {A} e.
Arguments Panic {A}.
Arguments Diverge {A}.

Definition res_of {A} (o : outcome A) : res :=
  match o with Ok _ => ROk | Err e => RErr e | Panic => RPanic | Diverge => RBudget end.

Definition bind {A B} (o : outcome A) (f : A -> outcome B) : outcome B :=
  match o with Ok a => f a | Err e => Err e | Panic => Panic | Diverge => Diverge end.
Notation "'do' x <- m ; k" := (bind m (fun x => k)) (at level 200, x pattern, m at level 100, k at level 200).

Definition is_ok {A} (o : outcome A) : bool := match o with Ok _ => true | _ => false end.

(* Checked arithmetic on an n-bit unsigned integer: in range -> the value; otherwise a panic in
   Debug, the wrapped value in Release. *)
Definition in_u (bits z : Z) : bool := (0 <=? z) && (z <? 2 ^ bits).
Definition chk_u (md : mode) (bits z : Z) : outcome Z :=
  if in_u bits z then Ok z
  else match md with Debug => Panic | Release => Ok (z mod 2 ^ bits) end.
Definition add_u md bits a b := chk_u md bits (a + b).
Definition sub_u md bits a b := chk_u md bits (a - b).
Definition mul_u md bits a b := chk_u md bits (a * b).

(* Signed i32. *)
Definition in_i32 (z : Z) : bool := (- 2 ^ 31 <=? z) && (z <? 2 ^ 31).
Definition wrap_i32 (z : Z) : Z := (z + 2 ^ 31) mod 2 ^ 32 - 2 ^ 31.
Definition chk_i32 (md : mode) (z : Z) : outcome Z :=
  if in_i32 z then Ok z
  else match md with Debug => Panic | Release => Ok (wrap_i32 z) end.

(* `x as u16`, `x as u32`, ... : truncation in both profiles. *)
Definition cast_u (bits z : Z) : Z := z mod 2 ^ bits.

Definition u8max := 255.
Definition u16max := 65535.
Definition u32max := 4294967295.

Lemma chk_u_in md bits z : in_u bits z = true -> chk_u md bits z = Ok z.
Proof. unfold chk_u; intros ->; reflexivity. Qed.

Lemma in_u_spec bits z : in_u bits z = true <-> 0 <= z < 2 ^ bits.
Proof. unfold in_u; rewrite andb_true_iff, Z.leb_le, Z.ltb_lt; tauto. Qed.

(* list helpers used across the model *)
Fixpoint list_eqb {A} (eqb : A -> A -> bool) (a b : list A) : bool :=
  match a, b with
  | [], [] => true
  | x :: a', y :: b' => eqb x y && list_eqb eqb a' b'
  | _, _ => false
  end.

Lemma list_eqb_eq {A} (eqb : A -> A -> bool) (H : forall x y, eqb x y = true <-> x = y) a b :
  list_eqb eqb a b = true <-> a = b.
Proof.
  revert b; induction a as [|x a IH]; intros [|y b]; cbn; try (split; congruence).
  rewrite andb_true_iff, H, IH. split; [intros [-> ->]; reflexivity | intros E; inversion E; auto].
Qed.

Definition zlist_eqb := list_eqb Z.eqb.
Lemma zlist_eqb_eq a b : zlist_eqb a b = true <-> a = b.
Proof. apply list_eqb_eq. intros; apply Z.eqb_eq. Qed.

(* firstn / skipn with a Z count that may be astronomically large (a u32): never builds a huge nat *)
Definition skipnZ {A} (n : Z) (l : list A) : list A :=
  if Z.of_nat (length l) <=? n then [] else skipn (Z.to_nat n) l.
Definition firstnZ {A} (n : Z) (l : list A) : list A :=
  if Z.of_nat (length l) <=? n then l else firstn (Z.to_nat n) l.

Lemma skipnZ_skipn {A} n (l : list A) : skipnZ n l = skipn (Z.to_nat n) l.
Proof.
  unfold skipnZ. destruct (Z.of_nat (length l) <=? n) eqn:E; [|reflexivity].
  apply Z.leb_le in E. symmetry. apply skipn_all2. lia.
Qed.
Lemma firstnZ_firstn {A} n (l : list A) : firstnZ n l = firstn (Z.to_nat n) l.
Proof.
  unfold firstnZ. destruct (Z.of_nat (length l) <=? n) eqn:E; [|reflexivity].
  apply Z.leb_le in E. symmetry. apply firstn_all2. lia.
Qed.
