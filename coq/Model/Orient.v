(* Orient.v — model of src/options/orientation.rs and the option enums of src/options.rs *)
Require Import Model.Base.

Inductive rot := D0 | D90 | D180 | D270.
Scheme Equality for rot.

Record orient := { rotn : rot; mir : bool }.
Definition orient_eqb (a b : orient) := rot_beq (rotn a) (rotn b) && Bool.eqb (mir a) (mir b).

Record mapping := { rev_rows : bool; rev_cols : bool; swap : bool }.

Definition degree (r : rot) : Z :=
  match r with D0 => 0 | D90 => 90 | D180 => 180 | D270 => 270 end.

(* i32::rem_euclid 360 : result in [0,360); cannot overflow for a positive modulus. *)
Definition rem_euclid (a m : Z) : Z := a mod m.

(* Rotation::try_from_degree *)
Definition try_from_degree (angle : Z) : option rot :=
  let a := if (angle <? 0) || (angle >? 270) then rem_euclid angle 360 else angle in
  if a =? 0 then Some D0
  else if a =? 90 then Some D90
  else if a =? 180 then Some D180
  else if a =? 270 then Some D270
  else None.

(* Rotation::rotate : `self.degree() + other.degree()` is an i32 addition (max 540, no overflow);
   the Err arm is `unreachable!()` = Panic. *)
Definition rotate_rot (a b : rot) : outcome rot :=
  match try_from_degree (degree a + degree b) with
  | Some r => Ok r
  | None => Panic
  end.

Definition is_horizontal (r : rot) : bool := match r with D0 | D180 => true | _ => false end.
Definition is_vertical (r : rot) : bool := match r with D90 | D270 => true | _ => false end.

Definition orient_new : orient := {| rotn := D0; mir := false |}.

Definition o_rotate (o : orient) (r : rot) : outcome orient :=
  do r' <- rotate_rot (rotn o) r; Ok {| rotn := r'; mir := mir o |}.

Definition flip_h_abs (o : orient) : outcome orient :=
  Ok {| rotn := rotn o; mir := negb (mir o) |}.
Definition flip_v_abs (o : orient) : outcome orient :=
  do r' <- rotate_rot (rotn o) D180; Ok {| rotn := r'; mir := negb (mir o) |}.

Definition flip_horizontal (o : orient) : outcome orient :=
  if is_vertical (rotn o) then flip_v_abs o else flip_h_abs o.
Definition flip_vertical (o : orient) : outcome orient :=
  if is_vertical (rotn o) then flip_h_abs o else flip_v_abs o.

(* MemoryMapping::from_orientation *)
Definition from_orient (o : orient) : mapping :=
  let '(rr, rc) := match rotn o with
                   | D0 => (false, false) | D90 => (false, true)
                   | D180 => (true, true) | D270 => (true, false) end in
  {| rev_rows := rr; rev_cols := xorb rc (mir o); swap := is_vertical (rotn o) |}.

Definition all_rots : list rot := [D0; D90; D180; D270].
Definition all_orients : list orient :=
  flat_map (fun r => [ {| rotn := r; mir := false |}; {| rotn := r; mir := true |} ]) all_rots.

Lemma all_orients_complete o : In o all_orients.
Proof. destruct o as [[] []]; cbn; tauto. Qed.
Lemma all_rots_complete r : In r all_rots.
Proof. destruct r; cbn; tauto. Qed.

(* Option enums of src/options.rs, as booleans / small records. *)
Record opts := {
  o_bgr : bool;            (* ColorOrder::Bgr *)
  o_orient : orient;
  o_inv : bool;            (* ColorInversion::Inverted *)
  o_btt : bool;            (* VerticalRefreshOrder::BottomToTop *)
  o_rtl : bool;            (* HorizontalRefreshOrder::RightToLeft *)
  o_w : Z; o_h : Z;        (* display_size  *)
  o_ox : Z; o_oy : Z       (* display_offset *)
}.

Definition set_orient (o : opts) (x : orient) : opts :=
  {| o_bgr := o_bgr o; o_orient := x; o_inv := o_inv o; o_btt := o_btt o; o_rtl := o_rtl o;
     o_w := o_w o; o_h := o_h o; o_ox := o_ox o; o_oy := o_oy o |}.

(* ModelOptions::display_size() : logical size under the stored orientation *)
Definition lsize (o : opts) : Z * Z :=
  if is_horizontal (rotn (o_orient o)) then (o_w o, o_h o) else (o_h o, o_w o).

Inductive tearing := TeOff | TeVertical | TeHV.

(* words over the six public generators *)
Inductive oop := ORot (r : rot) | OFlipH | OFlipV.
Definition apply_oop (o : orient) (p : oop) : outcome orient :=
  match p with ORot r => o_rotate o r | OFlipH => flip_horizontal o | OFlipV => flip_vertical o end.
Fixpoint apply_word (o : orient) (w : list oop) : outcome orient :=
  match w with
  | [] => Ok o
  | p :: w' => do o' <- apply_oop o p; apply_word o' w'
  end.
