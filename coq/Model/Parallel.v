(* Parallel.v — model of src/interface/parallel.rs : Generic8BitBus / Generic16BitBus (`set_value`
   with its change-mask cache) and ParallelInterface (`send_word`, `send_command`, `send_pixels`,
   `send_repeated_pixel` with the strobe-only fast path). The driver's only state is the cache
   `last`; the physical pin levels are reconstructed from the emitted operations (`lines`), which is
   what the sampler at the rising edge of WR looks at.
   Models the tree AFTER the fix: commit for F5 (the strobe count of the fast path is no longer
   formed in u32); `fixed = false` gives the pinned behaviour for the record of the finding. *)
Require Import Model.Base Model.Events.

(* ---- the bus: one OutputPin per bit, ascending; only changed bits are written ---- *)
Fixpoint pin_ops (n : nat) (i : Z) (value changed : Z) : list l2op :=
  match n with
  | O => []
  | S n' => (if Z.testbit changed i then [OPin i (Z.testbit value i)] else [])
            ++ pin_ops n' (i + 1) value changed
  end.

Definition all_ones (w : nat) : Z := 2 ^ Z.of_nat w - 1.      (* `!0` *)

(* OutputBus::set_value, fault-free: early return on a cache hit; cache cleared, changed pins
   written, cache set *)
Definition bus_set_value (w : nat) (last : option Z) (v : Z) : list l2op * option Z :=
  match last with
  | Some old => if old =? v then ([], last) else (pin_ops w 0 v (Z.lxor v old), Some v)
  | None => (pin_ops w 0 v (all_ones w), Some v)
  end.

(* ... with the k-th pin write of this call failing: the log ends with the failing write, the cache
   stays cleared (`self.last.take()` ran before the pins were touched) *)
Definition bus_set_value_f (w : nat) (last : option Z) (v : Z) (fail : option nat)
  : list l2op * option Z * bool :=
  let '(ops, last') := bus_set_value w last v in
  match fail with
  | Some k => if (k <? length ops)%nat then (firstn (S k) ops, None, false) else (ops, last', true)
  | None => (ops, last', true)
  end.

(* ---- physical lines ---- *)
Record lines := { l_pins : list bool; l_dc : bool; l_wr : bool }.

Fixpoint set_nth (l : list bool) (i : nat) (b : bool) : list bool :=
  match l, i with
  | [], _ => []
  | _ :: t, O => b :: t
  | h :: t, S i' => h :: set_nth t i' b
  end.

Definition line_step (st : lines) (o : l2op) : lines :=
  match o with
  | OPin i b => {| l_pins := set_nth (l_pins st) (Z.to_nat i) b; l_dc := l_dc st; l_wr := l_wr st |}
  | ODc b => {| l_pins := l_pins st; l_dc := b; l_wr := l_wr st |}
  | OWr b => {| l_pins := l_pins st; l_dc := l_dc st; l_wr := b |}
  | _ => st
  end.
Definition lines_after (st : lines) (ops : list l2op) : lines := fold_left line_step ops st.

Fixpoint data_value_from (i : Z) (pins : list bool) : Z :=
  match pins with
  | [] => 0
  | b :: r => (if b then 2 ^ i else 0) + data_value_from (i + 1) r
  end.
Definition data_value (pins : list bool) : Z := data_value_from 0 pins.

(* what the panel latches: (DC level, data-bus value) at every low -> high transition of WR *)
Fixpoint sample_par (st : lines) (ops : list l2op) : list (bool * Z) :=
  match ops with
  | [] => []
  | o :: r =>
      let st' := line_step st o in
      (match o with
       | OWr true => if l_wr st then [] else [(l_dc st, data_value (l_pins st))]
       | _ => []
       end) ++ sample_par st' r
  end.

(* a history of set_value calls, each possibly failing at one pin write; a failed pin write either
   changes the level or does not (`eff`) *)
Record bus_call := { bc_value : Z; bc_fail : option nat; bc_eff : bool }.

Definition bus_call_step (w : nat) (st : option Z * list bool) (c : bus_call) : option Z * list bool :=
  let '(last, pins) := st in
  let '(ops, last', ok) := bus_set_value_f w last (bc_value c) (bc_fail c) in
  let applied := if ok || bc_eff c then ops else removelast ops in
  (last', l_pins (lines_after {| l_pins := pins; l_dc := false; l_wr := false |} applied)).

Definition bus_history (w : nat) (st : option Z * list bool) (h : list bus_call) : option Z * list bool :=
  fold_left (bus_call_step w) h st.

(* the invariant the cache must satisfy for the strobe-only optimisations to be sound *)
Definition bus_inv (w : nat) (st : option Z * list bool) : Prop :=
  length (snd st) = w /\
  match fst st with Some v => data_value (snd st) = v /\ 0 <= v < 2 ^ Z.of_nat w | None => True end.

(* ---- ParallelInterface ---- *)
Definition par_result := (list l2op * option Z * outcome unit)%type.

Definition par_send_word (w : nat) (last : option Z) (word : Z) : list l2op * option Z :=
  let '(ops, l') := bus_set_value w last word in (OWr false :: ops ++ [OWr true], l').

Fixpoint par_send_words (w : nat) (last : option Z) (ws : list Z) : list l2op * option Z :=
  match ws with
  | [] => ([], last)
  | x :: r => let '(o1, l1) := par_send_word w last x in
              let '(o2, l2) := par_send_words w l1 r in (o1 ++ o2, l2)
  end.

Definition par_send_command (w : nat) (last : option Z) (cmd : Z) (args : list Z) : par_result :=
  let '(o1, l1) := par_send_word w last cmd in
  let '(o2, l2) := par_send_words w l1 args in
  (ODc false :: o1 ++ ODc true :: o2, l2, Ok tt).

Definition par_send_pixels (w : nat) (last : option Z) (px : list (list Z)) : par_result :=
  let '(o, l) := par_send_words w last (concat px) in (o, l, Ok tt).

(* fn is_same *)
Definition is_same (pixel : list Z) : option Z :=
  match pixel with
  | [] => None
  | first :: rest => if forallb (Z.eqb first) rest then Some first else None
  end.

Definition strobes (n : Z) : list l2op := concat (repeat [OWr false; OWr true] (Z.to_nat n)).

(* send_repeated_pixel. Pinned tree: `for _ in 1..(count * N as u32)` — the product is a u32
   multiplication (F5: panics in debug / wraps in release for count * N >= 2^32). Fixed tree: the
   count of remaining strobes is formed without overflow. *)
Definition par_send_repeated (fixed : bool) (md : mode) (w : nat) (last : option Z) (pixel : list Z) (count : Z)
  : par_result :=
  let n := Z.of_nat (length pixel) in
  if (count =? 0) || (n =? 0) then ([], last, Ok tt)
  else
    match is_same pixel with
    | Some word =>
        let '(o1, l1) := par_send_word w last word in
        match (if fixed then Ok (count * n) else mul_u md 32 count n) with
        | Ok total => (o1 ++ strobes (total - 1), l1, Ok tt)
        | Err e => (o1, l1, Err e)
        | Panic => (o1, l1, Panic)        (* the product is evaluated when the range is built, after send_word *)
        | Diverge => (o1, l1, Diverge)
        end
    | None => par_send_pixels w last (concat (repeat [pixel] (Z.to_nat count)))
    end.

Definition par_event (fixed : bool) (md : mode) (w : nat) (last : option Z) (e : event) : par_result :=
  match e with
  | ECmd op args => par_send_command w last op args
  | EPixels px => par_send_pixels w last px
  | ERepeat p c => par_send_repeated fixed md w last p c
  | EDelay ns => ([ODelay ns], last, Ok tt)
  | ERstLow => ([ORst false], last, Ok tt)
  | ERstHigh => ([ORst true], last, Ok tt)
  end.

Fixpoint par_run (fixed : bool) (md : mode) (w : nat) (last : option Z) (t : list event) : par_result :=
  match t with
  | [] => ([], last, Ok tt)
  | e :: t' =>
      match par_event fixed md w last e with
      | (ops, l1, Ok _) => let '(ops2, l2, r) := par_run fixed md w l1 t' in (ops ++ ops2, l2, r)
      | other => other
      end
  end.

(* what the panel must latch for an L1 trace: DC low exactly at each instruction's strobe *)
Definition latch_of_event (e : event) : list (bool * Z) :=
  match e with
  | ECmd op args => (false, op) :: map (pair true) args
  | EPixels px => map (pair true) (concat px)
  | ERepeat p c => map (pair true) (concat (repeat p (Z.to_nat c)))
  | _ => []
  end.
Definition latch_of (t : list event) : list (bool * Z) := flat_map latch_of_event t.

Definition count_wr_rising (st : lines) (ops : list l2op) : Z := Z.of_nat (length (sample_par st ops)).

Definition words_in_range (w : nat) (e : event) : Prop :=
  match e with
  | ECmd op args => 0 <= op < 256 /\ Forall (fun a => 0 <= a < 256) args
  | EPixels px => Forall (Forall (fun x => 0 <= x < 2 ^ Z.of_nat w)) px
  | ERepeat p c => Forall (fun x => 0 <= x < 2 ^ Z.of_nat w) p /\ 0 <= c < 2 ^ 32
  | _ => True
  end.
