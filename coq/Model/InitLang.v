(* InitLang.v — the straight-line language the translator (tools/rs2v.py) emits for Model::init bodies,
   and its semantics as an L1 event trace. *)
Require Import Model.Base Model.Orient Model.Dcs Model.Events.
From Coq Require Import String.

Inductive kind := Serial4Line | Parallel8Bit | Parallel16Bit.
Scheme Equality for kind.
Definition all_kinds := [Serial4Line; Parallel8Bit; Parallel16Bit].

Inductive colorfmt := CRgb565 | CRgb666.
Scheme Equality for colorfmt.

(* MAX_R/MAX_G/MAX_B .trailing_ones() of embedded-graphics' Rgb565 / Rgb666 *)
Definition color_bits (c : colorfmt) : Z :=
  match c with CRgb565 => 5 + 6 + 5 | CRgb666 => 6 + 6 + 6 end.

Inductive pfexpr :=
| PfFromColor                 (* PixelFormat::with_all(BitsPerPixel::from_rgb_color::<Self::ColorFormat>()) *)
| PfLit (dpi dbi : bpp).      (* PixelFormat::new(BitsPerPixel::X, BitsPerPixel::Y) *)

Inductive istmt :=
| IGate (ks : list kind)      (* if !matches!(DI::KIND, ks) { return Err(UnsupportedInterface) } *)
| IDelay (ns : Z)             (* delay.delay_us / delay_ms with a literal, in ns *)
| ICmd (c : dcs)              (* di.write_command(<parameterless command>)? *)
| ICmdMadctl                  (* di.write_command(madctl)?  with madctl = SetAddressMode::from(options) *)
| ICmdInvert                  (* di.write_command(SetInvertMode::new(options.invert_colors))? *)
| ICmdPixelFormat (p : pfexpr)
| IRaw (op : Z) (args : list Z)
| INoProp (s : istmt)         (* a fallible call whose result is NOT propagated with `?` *)
| IRetMadctl.                 (* Ok(madctl) *)

Record model_def := { m_name : string; m_fw : Z; m_fh : Z; m_color : colorfmt; m_prog : list istmt }.

Definition kind_in (k : kind) (ks : list kind) : bool := existsb (kind_beq k) ks.

(* the event a command statement sends (None for non-command statements) *)
Definition stmt_event (col : colorfmt) (o : opts) (s : istmt) : outcome (option event) :=
  match s with
  | ICmd c => do e <- write_command c; Ok (Some e)
  | ICmdMadctl => do e <- write_command (SetAddressMode (madctl_of_opts o)); Ok (Some e)
  | ICmdInvert => do e <- write_command (SetInvertMode (o_inv o)); Ok (Some e)
  | ICmdPixelFormat PfFromColor =>
      do b <- bpp_of_bits (color_bits col);
      do e <- write_command (SetPixelFormat b b); Ok (Some e)
  | ICmdPixelFormat (PfLit a b) => do e <- write_command (SetPixelFormat a b); Ok (Some e)
  | IRaw op args => Ok (Some (write_raw op args))
  | _ => Ok None
  end.

(* Fault-free run: trace and result (the returned MADCTL byte). A program that falls off its end
   without IRetMadctl is ill-formed (the translator never emits one): Panic. *)
Fixpoint run_init (k : kind) (col : colorfmt) (o : opts) (p : list istmt) : list event * outcome Z :=
  match p with
  | [] => ([], Panic)
  | IGate ks :: p' =>
      if kind_in k ks then run_init k col o p' else ([], Err (ECfg UnsupportedInterface))
  | IDelay ns :: p' => let '(t, r) := run_init k col o p' in (EDelay ns :: t, r)
  | IRetMadctl :: _ => ([], Ok (madctl_of_opts o))
  | INoProp s :: p' =>
      match stmt_event col o s with
      | Ok (Some e) => let '(t, r) := run_init k col o p' in (e :: t, r)
      | Ok None => run_init k col o p'
      | Err e => ([], Err e) | Panic => ([], Panic) | Diverge => ([], Diverge)
      end
  | s :: p' =>
      match stmt_event col o s with
      | Ok (Some e) => let '(t, r) := run_init k col o p' in (e :: t, r)
      | Ok None => run_init k col o p'
      | Err e => ([], Err e) | Panic => ([], Panic) | Diverge => ([], Diverge)
      end
  end.

(* does the program propagate every interface error? *)
Fixpoint propagates (p : list istmt) : bool :=
  match p with
  | [] => true
  | INoProp _ :: _ => false
  | _ :: p' => propagates p'
  end.

Fixpoint find_model (name : string) (ms : list model_def) : option model_def :=
  match ms with
  | [] => None
  | m :: ms' => if String.eqb name (m_name m) then Some m else find_model name ms'
  end.

(* The harness' external models (Ext565<W,H> / Ext666<W,H>): same statements as tests/external.rs,
   written against the public dcs API, no gate. Hand-modelled because it is harness code. *)
Definition prog_ext : list istmt := [
  IDelay 150000000; ICmd ExitSleepMode; IDelay 10000000; ICmdMadctl; ICmdInvert;
  ICmdPixelFormat PfFromColor; IDelay 10000000; ICmd EnterNormalMode; IDelay 10000000;
  ICmd SetDisplayOn; IDelay 120000000; IRetMadctl ].
