(* Display.v — model of src/lib.rs (Display methods) and src/graphics.rs (DrawTarget impl),
   as functions from driver state to (L1 events, result, new state). Models the tree AFTER the
   fix: commits for F1 (set_orientation stores the orientation), F3 (scroll-region sum widened),
   F4 (draw_iter discards out-of-bounds pixels). *)
Require Import Model.Base Model.Orient Model.Dcs Model.Events Model.Builder Model.Rect Model.Batch.

Record ctx := {
  c_md : mode;              (* build profile *)
  c_batch : bool;           (* cargo feature `batch` *)
  c_fw : Z; c_fh : Z;       (* Model::FRAMEBUFFER_SIZE *)
  c_enc : Z -> list Z;      (* colour -> bus words (InterfacePixelFormat) *)
  c_rowcap : nat;           (* MAX_ROW_SIZE *)
  c_blockcap : nat          (* MAX_BLOCK_SIZE *)
}.

(* writer + outcome *)
Definition W (A : Type) := (list event * outcome A)%type.
Definition wret {A} (a : A) : W A := ([], Ok a).
Definition wbind {A B} (m : W A) (f : A -> W B) : W B :=
  match m with
  | (t, Ok a) => let '(t', r) := f a in (t ++ t', r)
  | (t, Err e) => (t, Err e)
  | (t, Panic) => (t, Panic)
  | (t, Diverge) => (t, Diverge)
  end.
Definition wlift {A} (o : outcome A) : W A := ([], o).
Definition wemit (o : outcome event) : W unit :=
  match o with Ok e => ([e], Ok tt) | Err e => ([], Err e) | Panic => ([], Panic) | Diverge => ([], Diverge) end.
Notation "'wdo' x <- m ; k" := (wbind m (fun x => k)) (at level 200, x pattern, m at level 100, k at level 200).

Section Driver.
Variable c : ctx.
Let md := c_md c.

(* Display::set_address_window: the orientation-adjusted offset, in u16 arithmetic *)
Definition window_offset (o : opts) : outcome (Z * Z) :=
  let m := from_orient (o_orient o) in
  do off0 <- (if rev_cols m then do s <- add_u md 16 (o_w o) (o_ox o); sub_u md 16 (c_fw c) s
              else Ok (o_ox o));
  do off1 <- (if rev_rows m then do s <- add_u md 16 (o_h o) (o_oy o); sub_u md 16 (c_fh c) s
              else Ok (o_oy o));
  Ok (if swap m then (off1, off0) else (off0, off1)).

Definition set_address_window (o : opts) (sx sy ex ey : Z) : W unit :=
  wdo off <- wlift (window_offset o);
  wdo sx' <- wlift (add_u md 16 sx (fst off));
  wdo sy' <- wlift (add_u md 16 sy (snd off));
  wdo ex' <- wlift (add_u md 16 ex (fst off));
  wdo ey' <- wlift (add_u md 16 ey (snd off));
  wdo _ <- wemit (write_command (SetColumnAddress sx' ex'));
  wemit (write_command (SetPageAddress sy' ey')).

(* Display::set_pixels *)
Definition set_pixels (o : opts) (sx sy ex ey : Z) (colors : list Z) : W unit :=
  wdo _ <- set_address_window o sx sy ex ey;
  wdo _ <- wemit (write_command WriteMemoryStart);
  ([EPixels (map (c_enc c) colors)], Ok tt).

Definition bounding_box (o : opts) : rect :=
  {| rx := 0; ry := 0; rw := fst (lsize o); rh := snd (lsize o) |}.

(* ---- draw_iter ---- *)
Definition in_bbox (o : opts) (p : pixel) : bool := let '(x, y, _) := p in contains (bounding_box o) (x, y).

Fixpoint draw_each (o : opts) (ps : list pixel) : W unit :=
  match ps with
  | [] => wret tt
  | (x, y, col) :: ps' =>
      wdo _ <- set_pixels o (cast_u 16 x) (cast_u 16 y) (cast_u 16 x) (cast_u 16 y) [col];
      draw_each o ps'
  end.

Fixpoint draw_blocks (o : opts) (bs : list pblock) : W unit :=
  match bs with
  | [] => wret tt
  | b :: bs' =>
      wdo _ <- set_pixels o (bxl b) (byt b) (bxr b) (byb b) (bcs b);
      draw_blocks o bs'
  end.

Definition draw_iter (o : opts) (ps : list pixel) : W unit :=
  let ps := filter (in_bbox o) ps in
  if c_batch c then
    let '(bs, r) := blocks_of md (c_blockcap c) (rows_of (c_rowcap c) ps) in
    wdo _ <- draw_blocks o bs; wlift r
  else draw_each o ps.

(* ---- fill_contiguous ---- *)
(* TakeSkip over a list: alternately take `take` and skip `skip` elements. `fuel` bounds the
   recursion (length of the list suffices). *)
Fixpoint take_skip (fuel : nat) (take skip : Z) (l : list Z) : list Z :=
  match fuel with
  | O => []
  | S f =>
      match l with
      | [] => []
      | _ => firstnZ take l ++ take_skip f take skip (skipnZ (take + skip) l)
      end
  end.

Definition fill_contiguous (o : opts) (area : rect) (colors : list Z) : W unit :=
  let inter := intersection area (bounding_box o) in
  match bottom_right inter with
  | None => wret tt
  | Some (brx, bry) =>
      let sx := cast_u 16 (rx inter) in
      let sy := cast_u 16 (ry inter) in
      let ex := cast_u 16 brx in
      let ey := cast_u 16 bry in
      wdo count <- wlift (mul_u md 32 (rw inter) (rh inter));
      if rect_eqb inter area then
        set_pixels o sx sy ex ey (firstnZ count colors)
      else
        wdo skip_y <- wlift (if ry inter >? ry area
                             then mul_u md 32 (Z.abs (ry inter - ry area)) (rw area) else Ok 0);
        wdo skip0 <- wlift (if rx inter >? rx area
                            then add_u md 32 skip_y (Z.abs (rx inter - rx area)) else Ok skip_y);
        let colors' := skipnZ skip0 colors in
        let take := rw inter in
        wdo skipr <- wlift (sub_u md 32 (rw area) (rw inter));
        set_pixels o sx sy ex ey
          (firstnZ count
             (if (0 <? rw inter) then take_skip (S (length colors')) take skipr colors' else []))
  end.

(* ---- fill_solid / clear ---- *)
Definition fill_solid (o : opts) (area : rect) (col : Z) : W unit :=
  let a := intersection area (bounding_box o) in
  match bottom_right a with
  | None => wret tt
  | Some (brx, bry) =>
      wdo count <- wlift (mul_u md 32 (rw a) (rh a));
      wdo _ <- set_address_window o (cast_u 16 (rx a)) (cast_u 16 (ry a)) (cast_u 16 brx) (cast_u 16 bry);
      wdo _ <- wemit (write_command WriteMemoryStart);
      ([ERepeat (c_enc c col) count], Ok tt)
  end.

Definition clear (o : opts) (col : Z) : W unit := fill_solid o (bounding_box o) col.

(* ---- scrolling, tearing, sleep ---- *)
Definition set_vertical_scroll_region (top bottom : Z) : W unit :=
  let rows := c_fh c in
  (* after F3: the sum is formed in u32 *)
  wdo s <- wlift (add_u md 32 top bottom);
  if s >? rows then wemit (write_command (SetScrollArea rows 0 0))
  else
    wdo a <- wlift (sub_u md 16 rows top);
    wdo v <- wlift (sub_u md 16 a bottom);
    wemit (write_command (SetScrollArea top v bottom)).

Definition set_vertical_scroll_offset (off : Z) : W unit := wemit (write_command (SetScrollStart off)).
Definition set_tearing_effect (t : tearing) : W unit := wemit (write_command (SetTearingEffect t)).

Definition sleep_delay_ns : Z := 120000 * 1000.
Definition sleep : W unit :=
  wdo _ <- wemit (write_command EnterSleepMode); ([EDelay sleep_delay_ns], Ok tt).
Definition wake : W unit :=
  wdo _ <- wemit (write_command ExitSleepMode); ([EDelay sleep_delay_ns], Ok tt).

(* ---- operations on a Display ---- *)
Inductive pop :=
| PSetPixel (x y col : Z)
| PSetPixels (sx sy ex ey : Z) (cs : list Z)
| PDrawIter (ps : list pixel)
| PFillContig (r : rect) (cs : list Z)
| PFillContigGen (r : rect) (n : Z)         (* colour stream k mod 65536, k < n *)
| PFillSolid (r : rect) (col : Z)
| PClear (col : Z)
| PSetOrient (o : orient)
| PScrollRegion (top bottom : Z)
| PScrollOffset (off : Z)
| PTearing (t : tearing)
| PSleep
| PWake.

(* colour k of the stream is k mod 65536; counted in Z so that streams of 10^5 colours evaluate in linear time *)
Fixpoint gen_colors_from (k : Z) (n : nat) : list Z :=
  match n with O => [] | S n' => k mod 65536 :: gen_colors_from (k + 1) n' end.
Definition gen_colors (n : Z) : list Z := gen_colors_from 0 (Z.to_nat n).

(* fault-free step: events, result, state afterwards *)
Definition step (st : dstate) (op : pop) : list event * res * dstate :=
  let o := d_opts st in
  let keep (w : W unit) := (fst w, res_of (snd w), st) in
  match op with
  | PSetPixel x y col => keep (set_pixels o x y x y [col])
  | PSetPixels sx sy ex ey cs => keep (set_pixels o sx sy ex ey cs)
  | PDrawIter ps => keep (draw_iter o ps)
  | PFillContig r cs => keep (fill_contiguous o r cs)
  | PFillContigGen r n => keep (fill_contiguous o r (gen_colors n))
  | PFillSolid r col => keep (fill_solid o r col)
  | PClear col => keep (clear o col)
  | PSetOrient x =>
      let m := with_orientation (d_madctl st) x in
      let w := wemit (write_command (SetAddressMode m)) in
      (fst w, res_of (snd w),
       if is_ok (snd w) then {| d_opts := set_orient o x; d_madctl := m; d_sleeping := d_sleeping st |} else st)
  | PScrollRegion t b => keep (set_vertical_scroll_region t b)
  | PScrollOffset off => keep (set_vertical_scroll_offset off)
  | PTearing t => keep (set_tearing_effect t)
  | PSleep =>
      let w := sleep in
      (fst w, res_of (snd w),
       if is_ok (snd w) then {| d_opts := o; d_madctl := d_madctl st; d_sleeping := true |} else st)
  | PWake =>
      let w := wake in
      (fst w, res_of (snd w),
       if is_ok (snd w) then {| d_opts := o; d_madctl := d_madctl st; d_sleeping := false |} else st)
  end.

(* ---- L1 fault injection: the k-th Interface / reset-pin call of the operation fails ---- *)
Definition fallible (e : event) : bool := match e with EDelay _ => false | _ => true end.

(* events up to and including the k-th fallible one; None if there are not that many *)
Fixpoint cut_at (k : nat) (t : list event) : option (list event) :=
  match t with
  | [] => None
  | e :: t' =>
      if fallible e then
        match k with
        | O => Some [e]
        | S k' => option_map (cons e) (cut_at k' t')
        end
      else option_map (cons e) (cut_at k t')
  end.

(* a failed call leaves the driver state unchanged (every state update follows the last `?`) *)
Definition step_faulty (k : nat) (st : dstate) (op : pop) : list event * res * dstate :=
  let '(t, r, st') := step st op in
  match cut_at k t with
  | Some t' => (t', RErr (EIf IfRec), st)
  | None => (t, r, st')
  end.

(* what the harness reports after each op *)
Definition observe (st : dstate) : Z * bool * Z * Z * bool * bool :=
  let o := d_opts st in
  (match rotn (o_orient o) with D0 => 0 | D90 => 1 | D180 => 2 | D270 => 3 end,
   mir (o_orient o), fst (lsize o), snd (lsize o), d_sleeping st, true).

End Driver.

(* fault-free execution of a program of Display operations: per-op (events, result), final state *)
Fixpoint exec (c : ctx) (st : dstate) (ops : list pop) : list (list event * res) * dstate :=
  match ops with
  | [] => ([], st)
  | op :: r =>
      let '(t, rs, st') := step c st op in
      let '(l, stf) := exec c st' r in ((t, rs) :: l, stf)
  end.
Definition exec_trace (c : ctx) (st : dstate) (ops : list pop) : list event :=
  concat (map fst (fst (exec c st ops))).
Definition exec_all_ok (c : ctx) (st : dstate) (ops : list pop) : bool :=
  forallb (fun x => res_beq (snd x) ROk) (fst (exec c st ops)).
