(* Ptr16.v — the `#[cfg(target_pointer_width = "16")]` variants of take_u32 / nth_u32 (src/graphics.rs:
   not compiled on the test host), modelled on lists step by step as the Rust reads:
     take_u32: `let mut count = 0; iter.take_while(move |_| { count += 1; count <= max_count })`
     nth_u32 : `for _ in 0..n { iter.next(); } iter.next()`
   Each returns what it yields and what is left in the underlying iterator. `count` is a u32 (md decides
   what `count += 1` does at 2^32). *)
Require Import Model.Base.

(* take_while pulls an item, bumps the counter, yields the item while count <= max; the first item that
   fails the test is consumed and dropped *)
Fixpoint take16_go (md : mode) (count max : Z) (l : list Z) : outcome (list Z * list Z) :=
  match l with
  | [] => Ok ([], [])
  | x :: r =>
      do c <- add_u md 32 count 1;
      if c <=? max then do q <- take16_go md c max r; Ok (x :: fst q, snd q)
      else Ok ([], r)
  end.
Definition take_u32_16 (md : mode) (l : list Z) (max : Z) := take16_go md 0 max l.

Fixpoint drop16 (n : nat) (l : list Z) : list Z :=
  match n with O => l | S n' => match l with [] => [] | _ :: r => drop16 n' r end end.
Definition nth_u32_16 (l : list Z) (n : Z) : option Z * list Z :=
  (* the loop runs n times; once the iterator is dry every further next() is None (never builds a huge nat) *)
  if Z.of_nat (length l) <=? n then (None, [])
  else match drop16 (Z.to_nat n) l with [] => (None, []) | x :: r => (Some x, r) end.

(* the variants the host compiles: Iterator::take(n) / Iterator::nth(n) *)
Definition take_u32_host (l : list Z) (max : Z) : list Z * list Z := (firstnZ max l, skipnZ max l).
Definition nth_u32_host (l : list Z) (n : Z) : option Z * list Z :=
  match skipnZ n l with [] => (None, []) | x :: r => (Some x, r) end.
