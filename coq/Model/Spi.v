(* Spi.v — model of src/interface/spi.rs : SpiInterface::{send_command, send_pixels,
   send_repeated_pixel} with the staging buffer as an explicit byte list (arbitrary "stale" initial
   content). Output: the L2 operations (DC pin writes, SPI write transactions), the buffer
   afterwards, the outcome. A pixel is a list of N bytes ([u8; N]).
   Models the tree AFTER the fix: commit for F2 (`send_repeated_pixel(_, 0)` returns at once); the
   pinned behaviour is kept as `spi_send_repeated false` for the machine-checked record of the finding. *)
Require Import Model.Base Model.Events.

Definition spi_result := (list l2op * list Z * outcome unit)%type.

(* send_command: DC low, [instruction], DC high, parameters (an empty parameter slice is still one
   — empty — write) *)
Definition spi_send_command (buf : list Z) (cmd : Z) (args : list Z) : spi_result :=
  ([ODc false; OSpi [cmd]; ODc true; OSpi args], buf, Ok tt).

(* send_pixels: `while !done { fill whole chunks from the iterator; write buffer[..i] }`.
   cap = number of chunks `chunks_exact_mut(N)` yields = len / N. One round takes
   k = min cap (remaining) pixels, overwrites the first k*N buffer bytes, writes them; `done` is set
   only when the iterator runs dry INSIDE the chunk loop, i.e. when fewer than cap pixels were left
   (so a pixel count that is a multiple of cap ends with one empty write). *)
Fixpoint spi_pixels_go (fuel : nat) (n cap : Z) (buf : list Z) (px : list (list Z)) : spi_result :=
  match fuel with
  | O => ([], buf, Diverge)
  | S f =>
      let k := Z.min cap (Z.of_nat (length px)) in
      let bytes := concat (firstn (Z.to_nat k) px) in
      let buf' := bytes ++ skipn (length bytes) buf in
      let w := OSpi (firstn (Z.to_nat (k * n)) buf') in
      if Z.of_nat (length px) <? cap then ([w], buf', Ok tt)
      else
        let '(ops, b2, r) := spi_pixels_go f n cap buf' (skipn (Z.to_nat k) px) in
        (w :: ops, b2, r)
  end.

(* `assert!(self.buffer.len() >= N)` *)
Definition spi_send_pixels (n : Z) (buf : list Z) (px : list (list Z)) : spi_result :=
  if Z.of_nat (length buf) <? n then ([], buf, Panic)
  else spi_pixels_go (S (length px)) n (Z.of_nat (length buf) / n) buf px.

(* send_repeated_pixel: fill_count = min(count, (len / N) as u32); pre-fill; `while count >=
   fill_count { write; count -= fill_count }`; remainder write. With fill_count = 0 the loop never
   exits (Diverge): on the pinned tree that is count = 0 (F2); with `fixed` the function returns
   first. *)
Definition spi_send_repeated (fixed : bool) (n : Z) (buf : list Z) (pixel : list Z) (count : Z) : spi_result :=
  if fixed && (count =? 0) then ([], buf, Ok tt)
  else
    let fill_count := Z.min count (cast_u 32 (Z.of_nat (length buf) / n)) in
    let filled_len := fill_count * n in
    let buf' := concat (repeat pixel (Z.to_nat fill_count)) ++ skipn (Z.to_nat filled_len) buf in
    if fill_count =? 0 then ([], buf', Diverge)
    else
      let full := count / fill_count in
      let rem := count mod fill_count in
      (repeat (OSpi (firstn (Z.to_nat filled_len) buf')) (Z.to_nat full)
       ++ (if rem =? 0 then [] else [OSpi (firstn (Z.to_nat (rem * n)) buf')]),
       buf', Ok tt).

(* ---- running an L1 trace through the SPI transport ---- *)
Definition spi_event (fixed : bool) (n : Z) (buf : list Z) (e : event) : spi_result :=
  match e with
  | ECmd op args => spi_send_command buf op args
  | EPixels px => spi_send_pixels n buf px
  | ERepeat p c => spi_send_repeated fixed n buf p c
  | EDelay ns => ([ODelay ns], buf, Ok tt)
  | ERstLow => ([ORst false], buf, Ok tt)
  | ERstHigh => ([ORst true], buf, Ok tt)
  end.

Fixpoint spi_run (fixed : bool) (n : Z) (buf : list Z) (t : list event) : spi_result :=
  match t with
  | [] => ([], buf, Ok tt)
  | e :: t' =>
      match spi_event fixed n buf e with
      | (ops, b1, Ok _) => let '(ops2, b2, r) := spi_run fixed n b1 t' in (ops ++ ops2, b2, r)
      | other => other
      end
  end.

(* ---- what the panel sees on the wire: every byte with the DC level at that moment ---- *)
Fixpoint spi_wire (dc : bool) (ops : list l2op) : list (bool * Z) :=
  match ops with
  | [] => []
  | ODc b :: r => spi_wire b r
  | OSpi bs :: r => map (pair dc) bs ++ spi_wire dc r
  | _ :: r => spi_wire dc r
  end.

(* DC level after a sequence of ops *)
Fixpoint dc_after (dc : bool) (ops : list l2op) : bool :=
  match ops with
  | [] => dc
  | ODc b :: r => dc_after b r
  | _ :: r => dc_after dc r
  end.

(* ... and what it must see for an L1 trace: instruction byte with DC low, everything else high *)
Definition wire_of_event (e : event) : list (bool * Z) :=
  match e with
  | ECmd op args => (false, op) :: map (pair true) args
  | EPixels px => map (pair true) (concat px)
  | ERepeat p c => map (pair true) (concat (repeat p (Z.to_nat c)))
  | _ => []
  end.
Definition wire_of (t : list event) : list (bool * Z) := flat_map wire_of_event t.

Definition spi_writes (ops : list l2op) : list (list Z) :=
  flat_map (fun o => match o with OSpi bs => [bs] | _ => [] end) ops.
Definition count_spi (ops : list l2op) : Z := Z.of_nat (length (spi_writes ops)).

(* the L1 events a transport carries *)
Definition is_bus_event (e : event) : bool :=
  match e with ECmd _ _ | EPixels _ | ERepeat _ _ => true | _ => false end.
Definition event_pixels_wf (n : Z) (e : event) : Prop :=
  match e with
  | EPixels px => Forall (fun p => Z.of_nat (length p) = n) px
  | ERepeat p c => Z.of_nat (length p) = n /\ 0 <= c < 2 ^ 32
  | _ => True
  end.
