(* Corr/C04.v — fill_contiguous programs, and the source-extracted 16-bit-pointer helper variants *)
Require Import Model.Base Model.Ptr16 Corr.Common Corr.Draw Corr.L2.
Open Scope Z_scope.
Inductive c4case := C4P (pc : pcase) | C4L2 (pc : pcase) | C4Take (md : mode) (n : Z) (l : list Z) | C4Nth (n : Z) (l : list Z).
Inductive c4out := C4PO (p : pout) | C4PO2 (p : pout2) | C4H (found : Z) (items : list Z) (rest : list Z).

Definition oracle_p (v : verdict) : bool := v_results_ok v && v_writes v.

Definition check (x : c4case * c4out) : Z :=
  match x with
  | (C4P pc, C4PO p) => code (corr_ops pc p) (oracle_p (judge pc p))
  | (C4L2 pc, C4PO2 p) =>
      match model_of_id (pc_model pc) with
      | Some m => code (match run_pcase2 pc with Some mo => pout2_ops_eqb mo p | None => false end)
                       (let v := judge pc (decode_pout2 pc m p) in v_results_ok v && v_picture v && v_no_anomaly v)
      | None => 3
      end
  | (C4Take md n l, C4H found items rest) =>
      (* both helper items were found in the source; model = implementation; and the items are what
         Iterator::take yields *)
      code (match take_u32_16 md l n with
            | Ok (a, b) => zlist_eqb a items && zlist_eqb b rest
            | _ => false
            end)
           ((found =? 2) && zlist_eqb items (firstnZ n l))
  | (C4Nth n l, C4H found items rest) =>
      let '(r, b) := nth_u32_16 l n in
      code (zlist_eqb items [match r with Some v => v | None => -1 end] && zlist_eqb b rest)
           ((found =? 2) && zlist_eqb items [match skipnZ n l with v :: _ => v | [] => -1 end]
            && zlist_eqb rest (skipnZ (n + 1) l))
  | _ => 3
  end.
Definition model_out (c : c4case) :=
  match c with C4P pc => option_map C4PO (run_pcase pc) | _ => None end.
