(* Corr/C05.v — colour values through InterfacePixelFormat::{send_pixels, send_repeated_pixel} on a
   recording interface; COLMOD from real init runs. The oracle's encodings are written with shifts and
   masks, independently of Model/Color.v. *)
Require Import Model.Base Model.Orient Model.Dcs Model.Events Model.Builder Model.InitLang Model.Color Corr.Common Corr.Init.
Require Import Oracle.Controller Oracle.InitSpec.
Require Corr.C06 Corr.C07.
Open Scope Z_scope.

Inductive c5case :=
| C5Color (fmt : Z) (w16 : bool) (count : Z) (raws : list Z)     (* fmt 0 = Rgb565, 1 = Rgb666 *)
| C5Sum (fmt : Z) (w16 : bool) (lo hi : Z)
| C5Init (pc : pcase)
| C5Spi (sc : Corr.C06.scase)        (* the encoded words through the real SPI transport: fill vs stream *)
| C5Par (c : Corr.C07.parcase).      (* ... and through the real parallel transport *)
Inductive c5out :=
| C5Ev (l : list event)
| C5Z (s : Z)
| C5P (p : pout)
| C5S (s : Corr.C06.sout)
| C5Pa (o : Corr.C07.parout).

Definition enc_model (fmt : Z) (w16 : bool) : Z -> list Z :=
  enc_of (if fmt =? 0 then CRgb565 else CRgb666) w16.

(* MIPI-DCS: 16 bpp = RRRRRGGG GGGBBBBB, high byte first (or one 16-bit word); 18 bpp = three bytes
   RRRRRR00 GGGGGG00 BBBBBB00 *)
Definition spec_words (fmt : Z) (w16 : bool) (raw : Z) : list Z :=
  if fmt =? 0 then
    let r := Z.land (Z.shiftr raw 11) 31 in let g := Z.land (Z.shiftr raw 5) 63 in let b := Z.land raw 31 in
    if w16 then [Z.lor (Z.lor (Z.shiftl r 11) (Z.shiftl g 5)) b]
    else [Z.lor (Z.shiftl r 3) (Z.shiftr g 3); Z.lor (Z.shiftl (Z.land g 7) 5) b]
  else
    [Z.shiftl (Z.land (Z.shiftr raw 12) 63) 2; Z.shiftl (Z.land (Z.shiftr raw 6) 63) 2; Z.shiftl (Z.land raw 63) 2].

Definition color_events (enc : Z -> list Z) (count : Z) (raws : list Z) : list event :=
  EPixels (map enc raws) :: map (fun v => ERepeat (enc v) count) (firstn 4 raws).

Definition MODP : Z := 2305843009213693951.
(* position-weighted checksum over the words of all raw values in [lo, hi], as the harness computes it *)
Fixpoint sum_words (ws : list Z) (pos acc : Z) : Z * Z :=
  match ws with
  | [] => (pos, acc)
  | w :: r => sum_words r (pos + 1) ((acc + ((pos + 1) mod MODP) * (w + 1)) mod MODP)
  end.
Fixpoint sum_range (enc : Z -> list Z) (v : Z) (n : nat) (pos acc : Z) : Z :=
  match n with
  | O => acc
  | S n' => let '(pos', acc') := sum_words (enc v) pos acc in sum_range enc (v + 1) n' pos' acc'
  end.
Definition color_sum (enc : Z -> list Z) (lo hi : Z) : Z := sum_range enc lo (Z.to_nat (hi - lo + 1)) 0 0.

Definition model_c5 (c : c5case) : option c5out :=
  match c with
  | C5Color fmt w16 count raws => Some (C5Ev (color_events (enc_model fmt w16) count raws))
  | C5Sum fmt w16 lo hi => Some (C5Z (color_sum (enc_model fmt w16) lo hi))
  | C5Init pc => option_map C5P (run_pcase pc)
  | C5Spi sc => Some (C5S (Corr.C06.model_sout sc))
  | C5Par c => Some (C5Pa (Corr.C07.model_parout c))
  end.

Definition c5out_eqb (a b : c5out) : bool :=
  match a, b with
  | C5Ev x, C5Ev y => events_eqb x y
  | C5Z x, C5Z y => x =? y
  | C5P x, C5P y => pout_eqb x y
  | C5S x, C5S y => Corr.C06.sout_eqb x y
  | C5Pa x, C5Pa y => Corr.C07.parout_eqb x y
  | _, _ => false
  end.

(* COLMOD announced by a real init = the format the model's colour type is then sent in *)
Definition colmod_judge (pc : pcase) (impl : pout) : bool :=
  let '(r, ev, _, _) := impl in
  match model_of_id (pc_model pc) with
  | None => false
  | Some m =>
      res_beq r ROk &&
      match k_colmod (ctl_run (power_on (m_fw m) (m_fh m)) ev) with
      | Some b => b =? colmod_of (m_color m)
      | None => false
      end
  end.

Definition oracle (c : c5case) (impl : c5out) : bool :=
  match c, impl with
  | C5Color fmt w16 count raws, C5Ev l => events_eqb l (color_events (spec_words fmt w16) count raws)
  | C5Sum fmt w16 lo hi, C5Z s => s =? color_sum (spec_words fmt w16) lo hi
  | C5Init pc, C5P p => colmod_judge pc p
  | C5Spi sc, C5S so => Corr.C06.oracle sc so
  | C5Par c, C5Pa o => Corr.C07.oracle c o
  | _, _ => false
  end.

Definition check (x : c5case * c5out) : Z :=
  code (match model_c5 (fst x) with Some m => c5out_eqb m (snd x) | None => false end) (oracle (fst x) (snd x)).
Definition model_out := model_c5.
