(* Corr/C07.v — ParallelInterface and the generic buses driven through their public API: model vs
   implementation; the Coq sampler run on the implementation's own pin log. *)
Require Import Model.Base Model.Events Model.Parallel Model.Fault Corr.Common.
Open Scope Z_scope.

Inductive pcall :=
| PCmd (op : Z) (args : list Z)
| PPx (px : list (list Z))
| PRep (p : list Z) (count : Z).
Inductive parcase :=
| ParCalls (w : Z) (md : mode) (calls : list (Z * bool * pcall))     (* (fail index or -1, failed write takes effect, call) *)
| BusHist (w : Z) (calls : list (Z * Z * bool))
| ParHuge (w : Z) (md : mode) (p : list Z) (count budget : Z).    (* one repeat far beyond the mock's op budget *)                      (* (value, fail index or -1, effect) *)
Inductive parout :=
| ParOut (l : list (res * list l2op))
| BusOut (l : list (bool * list l2op)).

Definition event_of (cl : pcall) : event :=
  match cl with PCmd op a => ECmd op a | PPx px => EPixels px | PRep p c => ERepeat p c end.

(* fault at the k-th low-level operation of the call: the log ends with the failing op; the cache is
   cleared if the failing op is a data pin (set_value was in progress), otherwise it is whatever the
   completed set_value calls left — recomputed by replaying the truncated log *)
Definition err_of_op (o : l2op) : ierr := match o with OPin _ _ => ParBus | ODc _ => ParDc | _ => ParWr end.

Definition annot_call (w : nat) (last : option Z) (cl : pcall) : list (l2op * option Z) :=
  fst (annot_event w last (event_of cl)).

Definition run_call (md : mode) (w : nat) (last : option Z) (k : Z) (cl : pcall) : res * list l2op * option Z :=
  let '(ops, l', o) := par_event true md w last (event_of cl) in
  let an := annot_call w last cl in
  if negb (l2ops_eqb (map fst an) ops) then (RBudget, [], None)     (* annotation out of step with the model: flag it *)
  else if (k <? 0) || (Z.of_nat (length ops) <=? k) then (res_of o, ops, l')
  else
    let failing := nth (Z.to_nat k) ops (OWr true) in
    let lastf := match failing with
                 | OPin _ _ => None
                 | _ => match Z.to_nat k with O => last | S j => snd (nth j an (OWr true, last)) end
                 end in
    (RErr (EIf (err_of_op failing)), firstn (S (Z.to_nat k)) ops, lastf).

Fixpoint run_pcalls (md : mode) (w : nat) (last : option Z) (cls : list (Z * bool * pcall)) : list (res * list l2op) :=
  match cls with
  | [] => []
  | (k, _, cl) :: r =>
      let '(rs, ops, l') := run_call md w last k cl in
      (rs, ops) :: match rs with RPanic | RBudget => [] | _ => run_pcalls md w l' r end
  end.

Fixpoint run_bus (w : nat) (last : option Z) (h : list (Z * Z * bool)) : list (bool * list l2op) :=
  match h with
  | [] => []
  | (v, k, _) :: r =>
      let '(ops, l', ok) := bus_set_value_f w last v (if k <? 0 then None else Some (Z.to_nat k)) in
      (ok, ops) :: run_bus w l' r
  end.

Definition model_parout (c : parcase) : parout :=
  match c with
  | ParCalls w md calls => ParOut (run_pcalls md (Z.to_nat w) None calls)
  | BusHist w h => BusOut (run_bus (Z.to_nat w) None h)
  | ParHuge w md p count budget =>
      (* only meaningful when the call needs more operations than the budget: it must still be strobing
         when the budget runs out *)
      match is_same p with
      | Some x =>
          let '(o1, _) := par_send_word (Z.to_nat w) None x in
          ParOut [(RBudget, firstn (Z.to_nat budget) (o1 ++ strobes budget))]
      | None => ParOut []
      end
  end.

Definition parout_eqb (a b : parout) : bool :=
  match a, b with
  | ParOut x, ParOut y => list_eqb (fun p q => res_beq (fst p) (fst q) && l2ops_eqb (snd p) (snd q)) x y
  | BusOut x, BusOut y => list_eqb (fun p q => Bool.eqb (fst p) (fst q) && l2ops_eqb (snd p) (snd q)) x y
  | _, _ => false
  end.

Definition latch_eqb (a b : list (bool * Z)) : bool :=
  list_eqb (fun x y => Bool.eqb (fst x) (fst y) && (snd x =? snd y)) a b.

(* oracle for interface calls: a fault-free call latches exactly its words (DC low at the instruction
   only) and returns Ok; a faulted call returns the error naming the source of the failing operation and
   stops there; whatever the failed write did physically, later fault-free calls latch correctly *)
(* DC is driven only by send_command (low for the instruction, high afterwards); pixel calls leave it
   alone. `clean` = no fault since the last successful command, so DC must be high. *)
Definition expected_latch (st : lines) (cl : pcall) : list (bool * Z) :=
  match cl with
  | PCmd _ _ => latch_of_event (event_of cl)
  | _ => map (fun x => (l_dc st, snd x)) (latch_of_event (event_of cl))
  end.
Fixpoint oracle_calls (clean : bool) (st : lines) (cls : list (Z * bool * pcall)) (outs : list (res * list l2op)) : bool :=
  match cls, outs with
  | [], [] => true
  | (k, eff, cl) :: cr, (r, ops) :: orest =>
      match r with
      | ROk =>
          latch_eqb (sample_par st ops) (expected_latch st cl) &&
          (match cl with PCmd _ _ => true | _ => negb clean || l_dc st end) &&
          oracle_calls (match cl with PCmd _ _ => true | _ => clean end) (lines_after st ops) cr orest
      | RErr (EIf e) =>
          (0 <=? k) && (Z.of_nat (length ops) =? k + 1) &&
          ierr_beq e (err_of_op (last ops (OWr true))) &&
          (* the words latched before the fault are a prefix of the call's words *)
          (let got := sample_par st (removelast ops) in
           latch_eqb got (firstn (length got) (expected_latch st cl))) &&
          oracle_calls false (lines_after st (if eff then ops else removelast ops)) cr orest
      | _ => false
      end
  | _, _ => false
  end.

(* oracle for set_value histories: after every successful call the pins show the value *)
Fixpoint oracle_bus (pins : list bool) (h : list (Z * Z * bool)) (outs : list (bool * list l2op)) : bool :=
  match h, outs with
  | [], [] => true
  | (v, k, eff) :: hr, (ok, ops) :: orest =>
      let applied := if ok || eff then ops else removelast ops in
      let pins' := l_pins (lines_after {| l_pins := pins; l_dc := false; l_wr := false |} applied) in
      (if ok then data_value pins' =? v else (0 <=? k)) &&
      forallb (fun o => match o with OPin _ _ => true | _ => false end) ops &&
      oracle_bus pins' hr orest
  | _, _ => false
  end.

(* initial levels of the data pins are unknown: the oracle is run from all-low and from all-high *)
Definition oracle (c : parcase) (impl : parout) : bool :=
  match c, impl with
  | ParCalls w _ calls, ParOut outs =>
      oracle_calls true {| l_pins := repeat false (Z.to_nat w); l_dc := true; l_wr := true |} calls outs &&
      oracle_calls true {| l_pins := repeat true (Z.to_nat w); l_dc := true; l_wr := false |} calls outs
  | ParHuge w md p count budget, ParOut outs =>
      (* count * N - 1 strobes are owed and the budget is smaller: the call must use the budget up,
         every operation after the first word being a bare strobe *)
      match outs, is_same p with
      | [(r, ops)], Some x =>
          res_beq r RBudget && (Z.of_nat (length ops) =? budget) &&
          (2 * (count * Z.of_nat (length p)) >? budget + 40) &&
          latch_eqb (sample_par {| l_pins := repeat false (Z.to_nat w); l_dc := true; l_wr := true |} ops)
                    (repeat (true, x) (length (sample_par {| l_pins := repeat false (Z.to_nat w); l_dc := true; l_wr := true |} ops)))
      | _, _ => false
      end
  | BusHist w h, BusOut outs =>
      oracle_bus (repeat false (Z.to_nat w)) h outs && oracle_bus (repeat true (Z.to_nat w)) h outs
  | _, _ => false
  end.

Definition check (x : parcase * parout) : Z := code (parout_eqb (model_parout (fst x)) (snd x)) (oracle (fst x) (snd x)).
Definition model_out := model_parout.
