Require Import Model.Base Corr.Common Corr.Draw.
Definition check (x : pcase * pout) : Z := code (corr_exact (fst x) (snd x)) (all_good (verdict_of x)).
Definition model_out := Corr.Draw.model_out.
