(* Corr/C01.v — drawing programs at the Interface trait boundary (L1) and below the real transports (L2) *)
Require Import Model.Base Corr.Common Corr.Draw Corr.L2.
Inductive c1case := C1L1 (pc : pcase) | C1L2 (pc : pcase).
Inductive c1out := C1O1 (p : pout) | C1O2 (p : pout2).

(* pin level: a solid fill is seen as a stream of equal pixels, so the final picture is compared instead of
   the write history (the L1 cases compare the ordered history) *)
(* what C01 is about: results, framing, no anomaly, the ordered write history, confinement, reported state, one
   window per fill. (The colour-order / refresh-order bits of MADCTL belong to C10 / C11 / C14; the three
   orientation bits show in the write history.) *)
Definition good_l1 (v : verdict) : bool :=
  v_results_ok v && v_framing v && v_no_anomaly v && v_writes v && v_confined v && v_obs v
  && v_one_window v && v_nondraw_clean v.
Definition good_l2 (v : verdict) : bool :=
  v_results_ok v && v_framing v && v_no_anomaly v && v_picture v && v_confined v && v_obs v
  && v_one_window v && v_nondraw_clean v.

Definition check (x : c1case * c1out) : Z :=
  match x with
  | (C1L1 pc, C1O1 p) => code (corr_ops pc p) (good_l1 (judge pc p))
  | (C1L2 pc, C1O2 p) =>
      match model_of_id (pc_model pc) with
      | Some m => code (match run_pcase2 pc with Some mo => pout2_ops_eqb mo p | None => false end)
                       (good_l2 (judge pc (decode_pout2 pc m p)) &&
                        good_l2 (judge pc (decode_pout2_from (lines_high (bus_width pc)) pc m p)))
      | None => 3
      end
  | _ => 3
  end.
Definition model_out (c : c1case) :=
  match c with
  | C1L1 pc => option_map C1O1 (run_pcase pc)
  | C1L2 pc => option_map C1O2 (run_pcase2 pc)
  end.
