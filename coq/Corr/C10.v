Require Import Model.Base Corr.Common Corr.Draw.
Definition oracle (v : verdict) : bool := v_results_ok v && v_obs v && v_madctl v && v_writes v && v_confined v && v_no_anomaly v.
Definition check (x : pcase * pout) : Z := code (corr_ops (fst x) (snd x)) (oracle (verdict_of x)).
Definition model_out := Corr.Draw.model_out.
