Require Import Model.Base Corr.Common Corr.Draw Corr.L2 Corr.DrawL.
Definition oracle (v : verdict) : bool := v_results_ok v && v_writes v.
(* below the real transports: the final picture (no pixel dropped, duplicated or recoloured on the way to the pins) *)
Definition oracle2 (v : verdict) : bool := v_results_ok v && v_picture v && v_no_anomaly v.
Definition check := check_with oracle oracle2.
Definition model_out := Corr.DrawL.model_out.
