(* Corr/Init.v — judging a recorded Builder::init run (C11, C17, C05's COLMOD clause, C13's init clause) *)
Require Import Model.Base Model.Orient Model.Dcs Model.Events Model.Builder Model.InitLang Model.Display Corr.Common.
Require Import Oracle.Spec Oracle.Controller Oracle.InitSpec.
Open Scope Z_scope.

(* pairings supported on the pinned tree must stay supported, whatever the current gates say *)
Fixpoint assoc_str {A} (n : String.string) (l : list (String.string * A)) : option A :=
  match l with [] => None | (k, v) :: r => if String.eqb n k then Some v else assoc_str n r end.
Definition baseline_says (m : model_def) (k : kind) : bool :=
  match assoc_str (m_name m) baseline_matrix with Some ks => kind_in k ks | None => false end.

Definition init_judge (pc : pcase) (impl : pout) : bool :=
  let '(r, ev, ob, _) := impl in
  match model_of_id (pc_model pc) with
  | None => false
  | Some m =>
      let o := pc_opts pc in
      let k := kind_of_iface (pc_iface pc) in
      (* the state Display reports right after init: orientation, size, not sleeping *)
      let reported :=
        match ob with
        | Some (rot, mi, w, h, sl, bb) =>
            (rot =? match rotn (o_orient o) with D0 => 0 | D90 => 1 | D180 => 2 | D270 => 3 end) &&
            Bool.eqb mi (mir (o_orient o)) && (w =? fst (lsize o)) && (h =? snd (lsize o)) && negb sl && bb
        | None => negb (supported (m_prog m) k)
        end in
      if 0 <=? pc_init_fail pc then
        (* a fault was injected at the k-th fallible call of init: either it hit (error returned, nothing issued
           afterwards) or init has fewer calls than that (and must then be judged as usual) *)
        match r with
        | RErr (EInitInterface _) | RErr EInitResetPin => Z.of_nat (List.length (filter fallible ev)) =? pc_init_fail pc + 1
        | _ => (Z.of_nat (List.length (filter fallible ev)) <=? pc_init_fail pc) &&
               init_impl_ok m k o (pc_rst pc) r ev reported
        end
      else
      init_impl_ok m k o (pc_rst pc) r ev reported && (negb (baseline_says m k) || res_beq r ROk)
  end.

Definition is_bus_ev (e : event) : bool := match e with ECmd _ _ | EPixels _ | ERepeat _ _ => true | _ => false end.

Definition reset_judge (pc : pcase) (impl : pout) : bool :=
  let '(r, ev, _, _) := impl in
  if (0 <=? pc_init_fail pc) && (pc_init_fail pc <=? 1) && pc_rst pc then
    (* the reset pin itself fails (set_low: k = 0, set_high: k = 1): the error names the pin and nothing was
       put on the bus *)
    res_beq r (RErr EInitResetPin) && negb (existsb is_bus_ev ev) &&
    events_eqb ev (if pc_init_fail pc =? 0 then [ERstLow] else [ERstLow; EDelay 10000; ERstHigh])
  else
  match r with
  | RErr (ECfg InvalidDisplaySize) | RErr (ECfg InvalidDisplayOffset) => match ev with [] => true | _ => false end
  | _ => reset_first_ok (pc_rst pc) ev
  end.

Definition corr_init (pc : pcase) (impl : pout) : bool :=
  match run_pcase pc with Some m => pout_eqb m impl | None => false end.
