(* Corr/C19.v — TestImage::draw on a minimal clipping DrawTarget (raster / probes) and through a real
   Display; the property's clauses are judged on the implementation's own raster. *)
Require Import Model.Base Model.Orient Model.Dcs Model.Events Model.Builder Model.Rect Model.Batch
               Model.Display Model.InitLang Model.Color Model.TestImage Corr.Common Corr.Draw.
Require Import Oracle.Spec Oracle.Controller Oracle.DrawSpec.
Open Scope Z_scope.

Inductive t19case :=
| T19Raster (ct W H : Z)
| T19Probe (ct W H : Z) (pts : list (Z * Z))
| T19Display (pc : pcase).                 (* the program is a single `ti` operation *)
Inductive t19out :=
| T19R (r : res) (rows : list (list Z))
| T19P (r : res) (codes : list Z)
| T19D (p : pout).

Definition rows_eqb (a b : list (list Z)) : bool := list_eqb zlist_eqb a b.

(* ---- model side ---- *)
Definition raw_of (col : colorfmt) (c : tcolor) : Z :=
  match col, c with
  | CRgb565, TWhite => 0xFFFF | CRgb565, TBlack => 0 | CRgb565, TRed => 0xF800 | CRgb565, TGreen => 0x07E0 | CRgb565, TBlue => 0x001F
  | CRgb666, TWhite => 0x3FFFF | CRgb666, TBlack => 0 | CRgb666, TRed => 0x3F000 | CRgb666, TGreen => 0x00FC0 | CRgb666, TBlue => 0x0003F
  end.
Definition pop_of_tiop (col : colorfmt) (op : tiop) : pop :=
  match op with
  | TFillContig r cs => PFillContig r (map (raw_of col) cs)
  | TFillContigF r f => PFillContig r (map (fun q => raw_of col (f q)) (points r))
  | TFillSolid r c => PFillSolid r (raw_of col c)
  end.

Definition run_ti (c : ctx) (col : colorfmt) (st : dstate) : opres :=
  let '(lw, lh) := lsize (d_opts st) in
  match ti_ops lw lh with
  | Ok ops =>
      let l := fst (exec c st (map (pop_of_tiop col) ops)) in
      ((if forallb (fun x => res_beq (snd x) ROk) l then ROk else RPanic), coalesce (concat (map fst l)), observe st)
  | _ => (RPanic, [], observe st)
  end.

Definition model_t19 (c : t19case) : option t19out :=
  match c with
  | T19Raster _ W H =>
      Some (match ti_ops W H with Ok _ => T19R ROk (ti_raster_codes W H) | _ => T19R RPanic [] end)
  | T19Probe _ W H pts =>
      Some (match ti_ops W H with
            | Ok ops => T19P ROk (map (fun q => cell_code (if in_target W H (fst q) (snd q) then pixel_of ops (fst q) (snd q) else None)) pts)
            | _ => T19P RPanic []
            end)
  | T19Display pc =>
      match model_of_id (pc_model pc) with
      | None => None
      | Some m =>
          let c := ctx_of pc m in
          let '(t, r) := builder_init (pc_md pc) (m_fw m) (m_fh m) (pc_rst pc) (pc_opts pc)
                           (run_init (kind_of_iface (pc_iface pc)) (m_color m) (pc_opts pc) (m_prog m)) in
          match r with
          | Ok st => Some (T19D (ROk, coalesce t, Some (observe st), [run_ti c (m_color m) st]))
          | o => Some (T19D (res_of o, coalesce t, None, []))
          end
      end
  end.

Definition t19out_eqb (a b : t19out) : bool :=
  match a, b with
  | T19R r1 x, T19R r2 y => res_beq r1 r2 && rows_eqb x y
  | T19P r1 x, T19P r2 y => res_beq r1 r2 && zlist_eqb x y
  | T19D x, T19D y => pout_eqb x y
  | _, _ => false
  end.

(* ---- the property's clauses, on the implementation's raster ---- *)
Definition cellr (rows : list (list Z)) (x y : Z) : Z := nth (Z.to_nat x) (nth (Z.to_nat y) rows []) (-1).
Definition zs (n : Z) : list Z := map Z.of_nat (seq 0 (Z.to_nat n)).

Definition shape_ok (W H : Z) (rows : list (list Z)) : bool :=
  (Z.of_nat (List.length rows) =? H) && forallb (fun r => Z.of_nat (List.length r) =? W) rows.

Definition all_painted (rows : list (list Z)) : bool :=
  forallb (forallb (fun v => (1 <=? v) && (v <=? 5))) rows.

Definition frame_ok (W H : Z) (rows : list (list Z)) : bool :=
  forallb (fun x => (cellr rows x 0 =? 1) && (cellr rows x (H - 1) =? 1)) (zs W) &&
  forallb (fun y => (cellr rows 0 y =? 1) && (cellr rows (W - 1) y =? 1)) (zs H) &&
  (* exactly one pixel: the ring one step inside is black *)
  forallb (fun x => if (1 <=? x) && (x <=? W - 2) then (cellr rows x 1 =? 2) && (cellr rows x (H - 2) =? 2) else true) (zs W) &&
  forallb (fun y => if (1 <=? y) && (y <=? H - 2) then (cellr rows 1 y =? 2) && (cellr rows (W - 2) y =? 2) else true) (zs H).

(* some row consists (between the black gaps) of a red stretch, then a green one, then a blue one *)
Fixpoint strip (l : list Z) (stage : Z) : bool :=
  (* stage 0: leading white/black; 1 red; 2 green; 3 blue; 4 trailing black/white *)
  match l with
  | [] => stage =? 4
  | v :: r =>
      if stage =? 0 then (if (v =? 1) || (v =? 2) then strip r 0 else if v =? 3 then strip r 1 else false)
      else if stage =? 1 then (if v =? 3 then strip r 1 else if v =? 4 then strip r 2 else false)
      else if stage =? 2 then (if v =? 4 then strip r 2 else if v =? 5 then strip r 3 else false)
      else if stage =? 3 then (if v =? 5 then strip r 3 else if (v =? 1) || (v =? 2) then strip r 4 else false)
      else (if (v =? 1) || (v =? 2) then strip r 4 else false)
  end.
Definition bars_ok (rows : list (list Z)) : bool := existsb (fun r => strip r 0) rows.

Definition differs (W H : Z) (rows : list (list Z)) (T : Z * Z -> Z * Z) : bool :=
  existsb (fun y => existsb (fun x => let '(x', y') := T (x, y) in negb (cellr rows x y =? cellr rows x' y')) (zs W)) (zs H).
Definition asym_ok (W H : Z) (rows : list (list Z)) : bool :=
  differs W H rows (sym_flip_x W H) && differs W H rows (sym_flip_y W H) && differs W H rows (sym_rot180 W H) &&
  (if W =? H then differs W H rows (sym_transpose W H) && differs W H rows (sym_antitranspose W H) &&
                  differs W H rows (sym_rot90 W H) && differs W H rows (sym_rot270 W H)
   else true).

Definition raster_ok (W H : Z) (r : res) (rows : list (list Z)) : bool :=
  res_beq r ROk && shape_ok W H rows &&
  forallb (forallb (fun v => (0 <=? v) && (v <=? 5))) rows &&       (* only the five pure colours *)
  (if (32 <=? W) && (32 <=? H) then all_painted rows && frame_ok W H rows && bars_ok rows && asym_ok W H rows else true).

(* through a Display: every logical pixel ends up, in controller memory, in the cell the orientation
   prescribes, with the encoded colour; judged on the raster read back from the controller *)
Definition code_of_words (enc : Z -> list Z) (col : colorfmt) (ws : option (list Z)) : Z :=
  match ws with
  | None => 0
  | Some w =>
      if zlist_eqb w (enc (raw_of col TWhite)) then 1 else if zlist_eqb w (enc (raw_of col TBlack)) then 2
      else if zlist_eqb w (enc (raw_of col TRed)) then 3 else if zlist_eqb w (enc (raw_of col TGreen)) then 4
      else if zlist_eqb w (enc (raw_of col TBlue)) then 5 else 6
  end.
Definition display_ok (pc : pcase) (impl : pout) : bool :=
  let '(r0, ev0, _, outs) := impl in
  match model_of_id (pc_model pc), outs with
  | Some m, [(r, ev, _)] =>
      let o := pc_opts pc in
      let enc := enc_of (m_color m) (word16_of_iface (pc_iface pc)) in
      let k := ctl_run (ctl_run (power_on (m_fw m) (m_fh m)) ev0) ev in
      let '(lw, lh) := lsize o in
      let rows := map (fun y => map (fun x => let '(cx, cy) := spec_cell (o_w o) (o_h o) (o_ox o) (o_oy o) (o_orient o) x y in
                                               code_of_words enc (m_color m) (mem k cx cy)) (zs lw)) (zs lh) in
      res_beq r0 ROk && raster_ok lw lh r rows && match k_flags k with [] => true | _ => false end
  | _, _ => false
  end.

Definition oracle (c : t19case) (impl : t19out) : bool :=
  match c, impl with
  | T19Raster _ W H, T19R r rows => raster_ok W H r rows
  | T19Probe _ W H pts, T19P r codes =>
      res_beq r ROk && (List.length codes =? List.length pts)%nat &&
      (if (32 <=? W) && (32 <=? H) then
         (* the generator always asks for these cells first: four corners white, (1,1) black, marker corner white,
            the three other inset corners blue / red / blue *)
         match codes with
         | a :: b :: c' :: d :: e :: f :: g :: h :: i :: _ =>
             (a =? 1) && (b =? 1) && (c' =? 1) && (d =? 1) && (e =? 2) && (f =? 1) && (g =? 5) && (h =? 3) && (i =? 5)
         | _ => false
         end
       else true)
  | T19Display pc, T19D p => display_ok pc p
  | _, _ => false
  end.

Definition check (x : t19case * t19out) : Z :=
  code (match model_t19 (fst x) with Some m => t19out_eqb m (snd x) | None => false end) (oracle (fst x) (snd x)).
Definition model_out := model_t19.
