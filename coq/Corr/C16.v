(* Corr/C16.v — scroll set-up at the Interface boundary and below the real transports *)
Require Import Model.Base Corr.Common Corr.Draw Corr.L2 Corr.DrawL.
Definition oracle (v : verdict) : bool := v_results_ok v && v_scroll v.
Definition check := check_with oracle oracle.
Definition model_out := Corr.DrawL.model_out.
