(* Corr/C14.v — the address-mode byte: the pure SetAddressMode API, and the byte a Display sends at run time *)
Require Export Corr.Dcs.
Require Import Model.Base Corr.Common Corr.Draw.
Open Scope Z_scope.
Inductive c14case := C14D (d : dcase) | C14P (pc : pcase).
Inductive c14out := C14DO (o : dout) | C14PO (p : pout).
Definition check (x : c14case * c14out) : Z :=
  match x with
  | (C14D d, C14DO o) => check14 (d, o)
  | (C14P pc, C14PO p) =>
      (* after init and after every set_orientation the controller's address mode is the MIPI encoding of
         (configured colour order, current orientation, configured refresh order) *)
      code (corr_ops pc p) (let v := judge pc p in v_results_ok v && v_madctl v && v_obs v)
  | _ => 3
  end.
Definition model_out (c : c14case) :=
  match c with C14D d => C14DO (model_dout d) | C14P pc => match run_pcase pc with Some p => C14PO p | None => C14DO (model_dout (0, DRaw 0 [])) end end.
