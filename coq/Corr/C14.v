Require Export Corr.Dcs.
Definition check := check14.
Definition model_out := model_dout.
