(* Corr/DrawL.v — a drawing-program case either at the Interface trait boundary (L1: recording interface,
   ordered write history compared) or below the real transports (L2: pin-level log, decoded by
   Oracle/Decode.v; final picture compared because a solid fill is seen as a stream of equal pixels). *)
Require Import Model.Base Corr.Common Corr.Draw Corr.L2.
Inductive lcase := L1 (pc : pcase) | L2 (pc : pcase).
Inductive lout := LO1 (p : pout) | LO2 (p : pout2).

Definition check_with (g1 g2 : verdict -> bool) (x : lcase * lout) : Z :=
  match x with
  | (L1 pc, LO1 p) => code (corr_ops pc p) (g1 (judge pc p))
  | (L2 pc, LO2 p) =>
      match model_of_id (pc_model pc) with
      | Some m => code (match run_pcase2 pc with Some mo => pout2_ops_eqb mo p | None => false end)
                       (g2 (judge pc (decode_pout2 pc m p)) &&
                        (* the data pins may idle high before the first word *)
                        g2 (judge pc (decode_pout2_from (lines_high (bus_width pc)) pc m p)))
      | None => 3
      end
  | _ => 3
  end.
Definition model_out (c : lcase) :=
  match c with
  | L1 pc => option_map LO1 (run_pcase pc)
  | L2 pc => option_map LO2 (run_pcase2 pc)
  end.
