Require Import Model.Base Corr.Common Corr.Draw.
Definition oracle (v : verdict) : bool := v_results_ok v && v_sleep_match v && v_sleep_delay v && v_sleep_spacing v.
Definition check (x : pcase * pout) : Z := code (corr_exact (fst x) (snd x)) (oracle (verdict_of x)).
Definition model_out := Corr.Draw.model_out.
