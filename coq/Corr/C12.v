(* Corr/C12.v — a failing pin or bus operation is reported, stops the call, wedges nothing. *)
Require Import Model.Base Model.Orient Model.Dcs Model.Events Model.Builder Model.Rect Model.Batch
               Model.Display Model.InitLang Model.Color Model.Spi Model.Parallel Model.Fault Corr.Common Corr.L2.
Require Import Oracle.Spec Oracle.Controller Oracle.DrawSpec Oracle.InitSpec.
Open Scope Z_scope.

Definition orient_of_obs (ob : obs) : orient :=
  let '(r, m, _, _, _, _) := ob in
  {| rotn := if r =? 0 then D0 else if r =? 1 then D90 else if r =? 2 then D180 else D270; mir := m |}.

(* one faulted or fault-free call: error variant names the source of the LAST logged operation, exactly
   k+1 fallible operations were attempted (nothing after the failure), no panic; a failed call leaves
   every reported state (orientation, size, sleep flag) unchanged *)
Definition call_ok (pc : pcase) (k : Z) (before : obs) (x : opres2) : bool :=
  let '(r, ops, ob) := x in
  match r with
  | ROk => (k <? 0) || (count_fallible ops <=? k)
  | RErr (EIf e) =>
      (0 <=? k) && (count_fallible ops =? k + 1) &&
      ierr_beq e (tag_of_iface pc (last (filter fallible2 ops) (OWr true))) && obs_eqb ob before
  | _ => false
  end.

Fixpoint calls_ok (pc : pcase) (before : obs) (ops : list (Z * pop)) (outs : list opres2) : bool :=
  match ops, outs with
  | [], [] => true
  | (k, _) :: r, x :: xr => call_ok pc k before x && calls_ok pc (snd x) r xr
  | _, _ => false
  end.

Definition last_is_clear (ops : list (Z * pop)) : option Z :=
  match last ops (0, PSleep) with (k, PClear col) => if k <? 0 then Some col else None | _ => None end.

Definition oracle (pc : pcase) (impl : pout2) : bool :=
  let '(r0, ops0, ob0, outs) := impl in
  match model_of_id (pc_model pc) with
  | None => false
  | Some m =>
      if 0 <=? pc_init_fail pc then
        (* a fault during Builder::init *)
        match r0 with
        | RErr EInitResetPin =>
            (count_fallible ops0 =? pc_init_fail pc + 1) && match last (filter fallible2 ops0) (OWr true) with ORst _ => true | _ => false end
        | RErr (EInitInterface e) =>
            (count_fallible ops0 =? pc_init_fail pc + 1) &&
            match last (filter fallible2 ops0) (OWr true) with ORst _ => false | o => ierr_beq e (tag_of_iface pc o) end
        | ROk => count_fallible ops0 <=? pc_init_fail pc
        | _ => false
        end
      else
        match r0, ob0 with
        | ROk, Some ob =>
            (List.length outs =? List.length (pc_ops pc))%nat && calls_ok pc ob (pc_ops pc) outs &&
            (* once the fault has cleared the same display still draws: a final fault-free clear(c) must
               leave c on the whole panel window and nothing outside it *)
            match last_is_clear (pc_ops pc), rev outs with
            | Some col, (ROk, ops, obl) :: rest =>
                let logs := (false, ops0) :: map (fun y => (is_err (fst (fst y)), snd (fst y))) (rev rest) in
                let st := fold_left (fun (s : lines) (lg : bool * list l2op) => lines_after s (if fst lg then removelast (snd lg) else snd lg)) logs (lines0 (bus_width pc)) in
                let dc := fold_left (fun (d : bool) (lg : bool * list l2op) => dc_after d (if fst lg then removelast (snd lg) else snd lg)) logs true in
                let ev := decode_ops pc m st dc ops in
                let o := orient_of_obs obl in
                let opt := pc_opts pc in
                clears_panel (m_fw m) (m_fh m) (spec_madctl (o_bgr opt) o (o_btt opt) (o_rtl opt)) (panel_of opt)
                             (enc_of (m_color m) (pc_iface pc =? 5) col) ev
            | Some _, _ => false
            | None, _ => true
            end
        | _, _ => false
        end
  end.

Definition corr (pc : pcase) (impl : pout2) : bool :=
  match run_pcase2 pc with Some m => pout2_eqb m impl | None => false end.
Definition check (x : pcase * pout2) : Z := code (corr (fst x) (snd x)) (oracle (fst x) (snd x)).
Definition model_out (pc : pcase) := run_pcase2 pc.
