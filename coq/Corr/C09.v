Require Import Model.Base Model.Orient Model.Events Model.InitLang Corr.Common Oracle.Spec.

(* observation for C09: the result, and that a configuration error comes with an empty trace *)
Definition is_cfg_size_or_offset (r : res) : bool :=
  match r with RErr (ECfg InvalidDisplaySize) | RErr (ECfg InvalidDisplayOffset) => true | _ => false end.

Definition oracle (pc : pcase) (impl : pout) : bool :=
  let '(r, ev, _, _) := impl in
  match model_of_id (pc_model pc) with
  | None => false
  | Some m =>
      let o := pc_opts pc in
      match spec_cfg_error (m_fw m) (m_fh m) (o_w o) (o_h o) (o_ox o) (o_oy o) with
      | Some e => res_beq r (RErr (ECfg e)) && match ev with [] => true | _ => false end
      | None => negb (is_cfg_size_or_offset r)
      end
  end.

Definition corr (pc : pcase) (impl : pout) : bool :=
  let '(r, ev, _, _) := impl in
  match run_pcase pc with
  | None => false
  | Some (r', ev', _, _) =>
      res_beq r r' && (negb (is_cfg_size_or_offset r') || events_eqb ev ev')
  end.

Definition check (x : pcase * pout) : Z := code (corr (fst x) (snd x)) (oracle (fst x) (snd x)).
Definition model_out (pc : pcase) := run_pcase pc.
