(* Corr/Draw.v — shared oracle for programs of Display operations: replays the implementation's own
   event trace through the reference controller and compares with DrawSpec. Used by C01-C04, C08,
   C10, C13, C16, C20 (each picks the verdict bits its statement is about). *)
Require Import Model.Base Model.Orient Model.Dcs Model.Events Model.Builder Model.Rect Model.Batch
               Model.Display Model.InitLang Model.Color Corr.Common.
Require Import Oracle.Spec Oracle.Controller Oracle.DrawSpec.
Open Scope Z_scope.

Record verdict := {
  v_results_ok : bool;      (* init and every op returned Ok *)
  v_framing : bool;         (* every drawing call is (CASET RASET RAMWR PIX)* and nothing else *)
  v_no_anomaly : bool;      (* the controller flagged nothing (windows well-formed and inside, no wrap, ...) *)
  v_writes : bool;          (* write history = specification, as ordered lists *)
  v_confined : bool;        (* every written cell lies inside the configured panel window *)
  v_obs : bool;             (* orientation(), size(), bounding_box(), is_sleeping() as specified *)
  v_madctl : bool;          (* controller MADCTL = encoding of (colour order, current orientation, refresh) *)
  v_one_window : bool;      (* fills / clear: at most one window set-up, exactly one if something is visible *)
  v_nondraw_clean : bool;   (* non-drawing ops emit no pixel data / RAMWR *)
  v_sleep_match : bool;     (* is_sleeping() = the controller's sleep state, after init and after every op *)
  v_sleep_delay : bool;     (* every sleep-in / sleep-out is followed by >= 120 ms of delay inside the same call *)
  v_scroll : bool;          (* scroll set-up / offset commands exactly as specified *)
  v_sleep_spacing : bool;   (* the controller never saw two sleep-in/out commands < 120 ms apart *)
  v_picture : bool          (* final content of every cell of the panel window = last specified write (small panels) *)
}.


Definition wr_inside (p : panel) (w : wr) : bool :=
  match w with
  | WPx x y _ => (p_ox p <=? x) && (x <? p_ox p + p_w p) && (p_oy p <=? y) && (y <? p_oy p + p_h p)
  | WRect x0 y0 x1 y1 _ =>
      (p_ox p <=? x0) && (x1 <? p_ox p + p_w p) && (p_oy p <=? y0) && (y1 <? p_oy p + p_h p) && (x0 <=? x1) && (y0 <=? y1)
  end.

Definition panel_cells (p : panel) : list (Z * Z) :=
  flat_map (fun j => map (fun i => (p_ox p + Z.of_nat i, p_oy p + Z.of_nat j)) (seq 0 (Z.to_nat (p_w p))))
           (seq 0 (Z.to_nat (p_h p))).

Definition is_fill (op : pop) : bool :=
  match op with PFillContig _ _ | PFillContigGen _ _ | PFillSolid _ _ | PClear _ => true | _ => false end.

(* does the (clipped) area of a fill contain at least one cell? *)
Definition fill_visible (p : panel) (o : orient) (op : pop) : bool :=
  let vis r := match spec_fill_solid (fun _ => []) p o r 0 with [] => false | _ => true end in
  match op with
  | PFillContig r _ | PFillContigGen r _ | PFillSolid r _ => vis r
  | PClear _ => true
  | _ => false
  end.

Record wstate := {
  ws_ctl : ctl; ws_o : orient; ws_sleeping : bool; ws_exp_rev : list wr;
  ws_res : bool; ws_fr : bool; ws_obs : bool; ws_mad : bool; ws_onew : bool; ws_nd : bool;
  ws_slm : bool; ws_sld : bool; ws_scr : bool
}.

(* delay accumulated after the last sleep-in / sleep-out of a call; None if there was no such command *)
Fixpoint delay_after_sleep (t : list event) (acc : option Z) : option Z :=
  match t with
  | [] => acc
  | ECmd op _ :: r => if (op =? 0x10) || (op =? 0x11) then
                        match acc with
                        | Some d => if d <? SLEEP_NS then Some (-1) else delay_after_sleep r (Some 0)
                        | None => delay_after_sleep r (Some 0)
                        end
                      else delay_after_sleep r acc
  | EDelay ns :: r => delay_after_sleep r (match acc with Some d => Some (d + ns) | None => None end)
  | _ :: r => delay_after_sleep r acc
  end.
Definition sleep_delay_ok (t : list event) : bool :=
  match delay_after_sleep t None with None => true | Some d => SLEEP_NS <=? d end.

Definition obs_sleeping (ob : obs) : bool := let '(_, _, _, _, sl, _) := ob in sl.

Definition scroll_ok (fh : Z) (op : pop) (ev : list event) : bool :=
  match op with
  | PScrollRegion t b =>
      match ev with
      | [ECmd c [a1; a2; a3; a4; a5; a6]] =>
          let T := 256 * a1 + a2 in let S := 256 * a3 + a4 in let B := 256 * a5 + a6 in
          (c =? 0x33) && (T + S + B =? fh) &&
          forallb (fun v => (0 <=? v) && (v <=? 255)) [a1; a2; a3; a4; a5; a6] &&
          (if t + b <=? fh then (T =? t) && (B =? b) else (T =? fh) && (S =? 0) && (B =? 0))
      | _ => false
      end
  | PScrollOffset v =>
      match ev with
      | [ECmd c [a1; a2]] => (c =? 0x37) && (a1 =? v / 256) && (a2 =? v mod 256)
      | _ => false
      end
  | _ => true
  end.

Definition expected_obs (p : panel) (o : orient) (sl : bool) : obs :=
  (match rotn o with D0 => 0 | D90 => 1 | D180 => 2 | D270 => 3 end, mir o, lw_of p o, lh_of p o, sl, true).

Definition is_if_err (r : res) : bool := match r with RErr (EIf _) => true | _ => false end.

Definition walk_op (enc : Z -> list Z) (p : panel) (opt : opts) (s : wstate) (x : (Z * pop) * opres) : wstate :=
  let '((kf, op), (r, ev, ob)) := x in
  let ok := res_beq r ROk in
  (* a call with an injected fault may fail with an interface error; its failing Interface call is taken as not
     received by the panel *)
  let ev_seen := if ok then ev else removelast ev in
  let k' := ctl_run (ws_ctl s) ev_seen in
  let o' := if ok then spec_op_orient (ws_o s) op else ws_o s in
  let sl' := if ok then match op with PSleep => true | PWake => false | _ => ws_sleeping s end else ws_sleeping s in
  let exp := spec_op_writes_fast enc p (ws_o s) op in
  {| ws_ctl := k'; ws_o := o'; ws_sleeping := sl';
     (* after a failed call the expected history is re-synchronised with what the panel received *)
     ws_exp_rev := if ok then rev_append exp (ws_exp_rev s) else k_wrev k';
     ws_res := ws_res s && (if kf <? 0 then ok else ok || is_if_err r);
     ws_fr := ws_fr s && (if is_draw op && ok then framing_ok ev else true);
     ws_obs := ws_obs s && obs_eqb ob (expected_obs p o' sl');
     ws_mad := ws_mad s && (k_madctl k' =? spec_madctl (o_bgr opt) o' (o_btt opt) (o_rtl opt));
     ws_onew := ws_onew s && (if is_fill op && ok then
                                 let n := count_ramwr ev in
                                 if fill_visible p (ws_o s) op then n =? 1 else n =? 0
                               else true);
     ws_nd := ws_nd s && (if is_draw op then true else (count_ramwr ev =? 0) && negb (existsb is_pix ev));
     ws_slm := ws_slm s && Bool.eqb (obs_sleeping ob) (k_asleep k');
     ws_sld := ws_sld s && (if ok then sleep_delay_ok ev else true);
     ws_scr := ws_scr s && (if ok then scroll_ok (k_fh (ws_ctl s)) op ev else true) |}.

Definition bad_verdict : verdict :=
  {| v_results_ok := false; v_framing := false; v_no_anomaly := false; v_writes := false; v_confined := false;
     v_obs := false; v_madctl := false; v_one_window := false; v_nondraw_clean := false;
     v_sleep_match := false; v_sleep_delay := false; v_scroll := false; v_sleep_spacing := false; v_picture := false |}.

Definition good_verdict : verdict :=
  {| v_results_ok := true; v_framing := true; v_no_anomaly := true; v_writes := true; v_confined := true;
     v_obs := true; v_madctl := true; v_one_window := true; v_nondraw_clean := true;
     v_sleep_match := true; v_sleep_delay := true; v_scroll := true; v_sleep_spacing := true; v_picture := true |}.
Definition is_init_err (r : res) : bool :=
  match r with RErr (EInitInterface _) | RErr EInitResetPin => true | _ => false end.

Definition judge (pc : pcase) (impl : pout) : verdict :=
  let '(r0, ev0, ob0, outs) := impl in
  match model_of_id (pc_model pc) with
  | None => bad_verdict
  | Some m =>
      if (0 <=? pc_init_fail pc) && is_init_err r0 && (Z.of_nat (length (filter fallible ev0)) =? pc_init_fail pc + 1)
         && (match outs with [] => true | _ => false end)
      then good_verdict       (* the injected fault hit Builder::init, which reported it and stopped: no display to judge *)
      else
      let opt := pc_opts pc in
      let p := panel_of opt in
      let enc := enc_of (m_color m) (word16_of_iface (pc_iface pc)) in
      let k0 := ctl_run (power_on (m_fw m) (m_fh m)) ev0 in
      let s0 := {| ws_ctl := k0; ws_o := o_orient opt; ws_sleeping := false; ws_exp_rev := [];
                   ws_res := res_beq r0 ROk && (length outs =? length (pc_ops pc))%nat &&
                             (* an init that returned Ok although the injected fault hit one of its calls swallowed an error *)
                             ((pc_init_fail pc <? 0) || (Z.of_nat (length (filter fallible ev0)) <=? pc_init_fail pc));
                   ws_fr := true;
                   ws_obs := match ob0 with Some ob => obs_eqb ob (expected_obs p (o_orient opt) false) | None => false end;
                   ws_mad := k_madctl k0 =? spec_madctl (o_bgr opt) (o_orient opt) (o_btt opt) (o_rtl opt);
                   ws_onew := true; ws_nd := true;
                   ws_slm := match ob0 with Some ob => Bool.eqb (obs_sleeping ob) (k_asleep k0) | None => false end;
                   ws_sld := sleep_delay_ok ev0; ws_scr := true |} in
      let s := fold_left (walk_op enc p opt) (combine (pc_ops pc) outs) s0 in
      let ws := writes (ws_ctl s) in
      {| v_results_ok := ws_res s; v_framing := ws_fr s;
         v_no_anomaly := match k_flags (ws_ctl s) with [] => true | _ => false end;
         v_writes := list_eqb wr_eqb ws (rev (ws_exp_rev s));
         v_confined := forallb (wr_inside p) ws;
         v_obs := ws_obs s; v_madctl := ws_mad s; v_one_window := ws_onew s; v_nondraw_clean := ws_nd s;
         v_sleep_match := ws_slm s; v_sleep_delay := ws_sld s; v_scroll := ws_scr s;
         v_sleep_spacing := negb (existsb (fun a => match a with SleepSpacing => true | _ => false end) (k_flags (ws_ctl s)));
         v_picture :=
           if p_w p * p_h p <=? 4096 then
             forallb (fun c => match mem_rev (k_wrev (ws_ctl s)) (fst c) (snd c), mem_rev (ws_exp_rev s) (fst c) (snd c) with
                               | Some a, Some b => zlist_eqb a b
                               | None, None => true
                               | _, _ => false
                               end) (panel_cells p)
           else true |}
  end.

Definition all_good (v : verdict) : bool :=
  v_results_ok v && v_framing v && v_no_anomaly v && v_writes v && v_confined v && v_obs v && v_madctl v
  && v_one_window v && v_nondraw_clean v && v_sleep_match v && v_sleep_delay v && v_scroll v.

Definition corr_exact (pc : pcase) (impl : pout) : bool :=
  match run_pcase pc with Some m => pout_eqb m impl | None => false end.

(* the same without the init trace: properties about Display operations observe the result of init, the state it
   reports and everything each operation does — not which bytes init sent (that is C05 / C11 / C13 / C17's business) *)
Definition corr_ops (pc : pcase) (impl : pout) : bool :=
  match run_pcase pc with
  | Some (r1, _, o1, l1) =>
      let '(r2, _, o2, l2) := impl in
      res_beq r1 r2 &&
      match o1, o2 with Some x, Some y => obs_eqb x y | None, None => true | _, _ => false end &&
      list_eqb opres_eqb l1 l2
  | None => false
  end.

Definition model_out (pc : pcase) := run_pcase pc.
Definition verdict_of (x : pcase * pout) := judge (fst x) (snd x).
