(* Corr/C20.v — bus overhead: window set-ups per call against maximal left-to-right runs cut at the
   MEASURED row capacity; SPI transactions per burst. *)
Require Import Model.Base Model.Orient Model.Dcs Model.Events Model.Builder Model.Rect Model.Batch
               Model.Display Model.InitLang Model.Spi Corr.Common Corr.Draw Corr.C06.
Require Import Oracle.Spec Oracle.Controller Oracle.DrawSpec.
Open Scope Z_scope.

Inductive c20case := C20P (pc : pcase) | C20S (sc : scase).
Inductive c20out := C20PO (p : pout) | C20SO (s : sout).

(* lengths of the maximal runs of horizontally adjacent same-row pixels supplied left to right *)
Fixpoint runs_go (prev : option (Z * Z)) (cur : Z) (ps : list pixel) : list Z :=
  match ps with
  | [] => match prev with None => [] | Some _ => [cur] end
  | (x, y, _) :: r =>
      match prev with
      | None => runs_go (Some (x, y)) 1 r
      | Some (px, py) => if (x =? px + 1) && (y =? py) then runs_go (Some (x, y)) (cur + 1) r
                         else cur :: runs_go (Some (x, y)) 1 r
      end
  end.
Definition runs (ps : list pixel) : list Z := runs_go None 0 ps.
Definition ceil_div (a b : Z) : Z := (a + b - 1) / b.

(* largest burst (pixels after one RAMWR) in a trace: the capacity the driver exhibits *)
Definition max_burst (t : list event) : Z :=
  fold_left (fun m e => match e with EPixels px => Z.max m (Z.of_nat (List.length px)) | _ => m end) t 0.

Definition inb_px (p : panel) (o : orient) (q : pixel) : bool := let '(x, y, _) := q in in_box p o x y.

Definition count_op (op : Z) (t : list event) : Z :=
  Z.of_nat (List.length (filter (fun e => match e with ECmd o _ => o =? op | _ => false end) t)).

(* walk the ops: the first op is the calibration run; orientation tracked through set_orientation *)
Fixpoint walk20 (batch : bool) (p : panel) (o : orient) (cap : Z) (ops : list (Z * pop)) (outs : list opres) : bool :=
  match ops, outs with
  | [], [] => true
  | (_, op) :: r, (rs, ev, _) :: orest =>
      (* a window set-up is CASET + RASET + RAMWR: all three are counted and must agree *)
      let n := count_op 0x2A ev in
      res_beq rs ROk && (count_op 0x2B ev =? n) && (count_ramwr ev =? n) &&
      (match op with
       | PDrawIter ps =>
           let fs := filter (inb_px p o) ps in
           (n <=? Z.of_nat (List.length fs)) &&
           (if batch then n <=? fold_left (fun s l => s + ceil_div l cap) (runs fs) 0 else true)
       | PFillContig _ _ | PFillContigGen _ _ | PFillSolid _ _ | PClear _ =>
           if fill_visible p o op then n =? 1 else n =? 0
       | _ => true
       end) &&
      walk20 batch p (spec_op_orient o op) cap r orest
  | _, _ => false
  end.

Definition oracle (c : c20case) (impl : c20out) : bool :=
  match c, impl with
  | C20P pc, C20PO (r0, _, _, outs) =>
      res_beq r0 ROk &&
      match outs with
      | (_, ev, _) :: _ =>
          (* capacity measured on the calibration run (first op), not assumed *)
          let cap := if pc_batch pc then max_burst ev else 1 in
          (if pc_batch pc then 2 <=? cap else true) &&
          walk20 (pc_batch pc) (panel_of (pc_opts pc)) (o_orient (pc_opts pc)) cap (pc_ops pc) outs
      | [] => false
      end
  | C20S sc, C20SO so => Corr.C06.oracle sc so
  | _, _ => false
  end.

Definition corr (c : c20case) (impl : c20out) : bool :=
  match c, impl with
  | C20P pc, C20PO p => corr_ops pc p
  | C20S sc, C20SO so => sout_eqb (model_sout sc) so
  | _, _ => false
  end.
Definition check (x : c20case * c20out) : Z := code (corr (fst x) (snd x)) (oracle (fst x) (snd x)).
Definition model_out (c : c20case) :=
  match c with C20P pc => option_map C20PO (run_pcase pc) | C20S sc => Some (C20SO (model_sout sc)) end.
