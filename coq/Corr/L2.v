(* Corr/L2.v — Display programs run over the real transports (SpiInterface, ParallelInterface): the model
   composes the L1 driver model with Model/Spi.v / Model/Parallel.v, injects a fault at the k-th
   fallible pin / bus operation of a call, and the pin-level log is decoded back into L1 events for the
   reference controller. Not a proof file. *)
Require Import Model.Base Model.Orient Model.Dcs Model.Events Model.Builder Model.Rect Model.Batch
               Model.Display Model.InitLang Model.Color Model.Spi Model.Parallel Model.Fault Corr.Common.
Require Import Gen.Consts.
Open Scope Z_scope.

Definition merge_delays (ops : list l2op) : list l2op :=
  (* the harness' delay mock merges consecutive delay_ns calls into one ODelay *)
  let fix go (l : list l2op) : list l2op :=
    match l with
    | ODelay a :: r => match go r with ODelay b :: r' => ODelay (a + b) :: r' | x => ODelay a :: x end
    | o :: r => o :: go r
    | [] => []
    end in go ops.

(* ---------------------------------------------------------------- program cases at L2 *)
Definition opres2 := (res * list l2op * obs)%type.
Definition pout2 := (res * list l2op * option obs * list opres2)%type.

Definition opres2_eqb (a b : opres2) : bool :=
  let '(r1, e1, o1) := a in let '(r2, e2, o2) := b in res_beq r1 r2 && l2ops_eqb e1 e2 && obs_eqb o1 o2.
Definition pout2_eqb (a b : pout2) : bool :=
  let '(r1, e1, o1, l1) := a in let '(r2, e2, o2, l2) := b in
  res_beq r1 r2 && l2ops_eqb e1 e2 &&
  match o1, o2 with Some x, Some y => obs_eqb x y | None, None => true | _, _ => false end &&
  list_eqb opres2_eqb l1 l2.

(* pin-level correspondence without the init log (see Corr/Draw.v corr_ops) *)
Definition pout2_ops_eqb (a b : pout2) : bool :=
  let '(r1, _, o1, l1) := a in let '(r2, _, o2, l2) := b in
  res_beq r1 r2 &&
  match o1, o2 with Some x, Some y => obs_eqb x y | None, None => true | _, _ => false end &&
  list_eqb opres2_eqb l1 l2.

Definition tstate_of (pc : pcase) (m : model_def) : tstate :=
  let n := match m_color m with CRgb565 => 2 | CRgb666 => 3 end in
  if pc_iface pc =? 3 then TSpi n (repeat 165 (Z.to_nat (pc_ifparam pc)))
  else if pc_iface pc =? 4 then TPar 8 None else TPar 16 None.

Fixpoint run_ops2 (c : ctx) (ts : tstate) (st : dstate) (ops : list (Z * pop)) : list opres2 :=
  match ops with
  | [] => []
  | (k, op) :: ops' =>
      let '(t, r, st') := step c st op in
      let '(an, ts', o, sane) := trans_events (c_md c) ts t in
      if negb sane then [(RBudget, [], observe st)]
      else
        match cut_fault k ts an with
        | Some (l, failing, tsf) =>
            (RErr (EIf (tag_of failing ts)), merge_delays l, observe st) :: run_ops2 c tsf st ops'
        | None =>
            let r' := match o with Ok _ => r | x => res_of x end in
            (r', merge_delays (map fst an), observe st') ::
            match r' with RPanic | RBudget => [] | _ => run_ops2 c ts' st' ops' end
        end
  end.

Definition run_pcase2 (pc : pcase) : option pout2 :=
  match model_of_id (pc_model pc) with
  | None => None
  | Some m =>
      let c := ctx_of pc m in
      let ts0 := tstate_of pc m in
      let '(t, r) := builder_init (pc_md pc) (m_fw m) (m_fh m) (pc_rst pc) (pc_opts pc)
                       (run_init (kind_of_iface (pc_iface pc)) (m_color m) (pc_opts pc) (m_prog m)) in
      let '(an, ts', o, sane) := trans_events (pc_md pc) ts0 t in
      if negb sane then None
      else
        match cut_fault (pc_init_fail pc) ts0 an with
        | Some (l, failing, _) =>
            Some (RErr (match failing with ORst _ => EInitResetPin | _ => EInitInterface (tag_of failing ts0) end),
                  merge_delays l, None, [])
        | None =>
            match r, o with
            | Ok st, Ok _ => Some (ROk, merge_delays (map fst an), Some (observe st), run_ops2 c ts' st (pc_ops pc))
            | Ok _, x => Some (res_of x, merge_delays (map fst an), None, [])
            | x, _ => Some (res_of x, merge_delays (map fst an), None, [])
            end
        end
  end.

(* ---------------------------------------------------------------- decoding a pin-level log back to L1 *)
(* witem, wire_spi, wire_par, chunks, flush, decode_items: Oracle/Decode.v (proved to invert the transports:
   Proofs/DecodeP.v, Props/C01T.v) *)
Require Import Oracle.Decode.

Definition words_per_pixel (pc : pcase) (m : model_def) : nat :=
  if pc_iface pc =? 5 then 1%nat else match m_color m with CRgb565 => 2%nat | CRgb666 => 3%nat end.

(* a burst with no pixel at all decodes to `EPixels []`, which the L1 recorder also shows; a solid fill is
   seen on the wire as a stream of equal pixels *)
Definition decode_ops (pc : pcase) (m : model_def) (lines0 : lines) (dc0 : bool) (ops : list l2op) : list event :=
  let items := if pc_iface pc =? 3 then wire_spi dc0 ops else wire_par lines0 ops in
  decode_items (words_per_pixel pc m) None [] items.

(* line state after a log (for chaining op after op) *)
Definition dc_after_ops (dc : bool) (ops : list l2op) : bool := dc_after dc ops.

(* ---------------------------------------------------------------- decoded view of a pin-level run *)
Require Import Oracle.Spec Oracle.Controller Oracle.DrawSpec.

Definition lines0 (w : nat) : lines := {| l_pins := repeat false w; l_dc := true; l_wr := true |}.
Definition bus_width (pc : pcase) : nat := if pc_iface pc =? 5 then 16%nat else 8%nat.

(* decode op logs one after the other, threading DC level / line state; a faulted call's failing operation
   is taken not to have reached the panel *)
Fixpoint decode_seq (pc : pcase) (m : model_def) (st : lines) (dc : bool) (logs : list (bool * list l2op))
  : list (list event) :=
  match logs with
  | [] => []
  | (faulted, ops) :: r =>
      let eff := if faulted then removelast ops else ops in
      decode_ops pc m st dc eff :: decode_seq pc m (lines_after st eff) (dc_after dc eff) r
  end.

Definition is_err (r : res) : bool := match r with RErr _ => true | _ => false end.

Definition count_fallible (ops : list l2op) : Z := Z.of_nat (length (filter fallible2 ops)).

Definition tag_of_iface (pc : pcase) (o : l2op) : ierr :=
  tag_of o (if pc_iface pc =? 3 then TSpi 0 [] else TPar 0 None).

Definition cells_of (p : panel) : list (Z * Z) :=
  flat_map (fun j => map (fun i => (p_ox p + Z.of_nat i, p_oy p + Z.of_nat j)) (seq 0 (Z.to_nat (p_w p))))
           (seq 0 (Z.to_nat (p_h p))).
Definition wr_in_panel (p : panel) (w : wr) : bool :=
  match w with
  | WPx x y _ => (p_ox p <=? x) && (x <? p_ox p + p_w p) && (p_oy p <=? y) && (y <? p_oy p + p_h p)
  | WRect x0 y0 x1 y1 _ =>
      (p_ox p <=? x0) && (x1 <? p_ox p + p_w p) && (p_oy p <=? y0) && (y1 <? p_oy p + p_h p)
  end.
(* after these events, from a controller holding `madctl`, the whole panel window shows `ws` and nothing
   outside it was written *)
Definition clears_panel (fw fh madctl : Z) (p : panel) (ws : list Z) (ev : list event) : bool :=
  let k := ctl_run (ctl_run (power_on fw fh) [ECmd 0x36 [madctl]]) ev in
  forallb (fun c => match mem k (fst c) (snd c) with Some w => zlist_eqb w ws | None => false end) (cells_of p)
  && forallb (wr_in_panel p) (writes k)
  && match k_flags k with [] => true | _ => false end.

(* the L1 view of a pin-level run: every log decoded; results and reported state kept *)
Definition decode_pout2_from (st0 : lines) (pc : pcase) (m : model_def) (impl : pout2) : pout :=
  let '(r0, ops0, ob0, outs) := impl in
  let logs := (false, ops0) :: map (fun y => (is_err (fst (fst y)), snd (fst y))) outs in
  match decode_seq pc m st0 true logs with
  | ev0 :: evs => (r0, ev0, ob0, map (fun z => (fst (fst (fst z)), snd z, snd (fst z))) (combine outs evs))
  | [] => (r0, [], ob0, [])
  end.
Definition decode_pout2 (pc : pcase) (m : model_def) (impl : pout2) : pout :=
  decode_pout2_from (lines0 (bus_width pc)) pc m impl.
(* data pins that idle high (pull-ups, boot loader): what the panel latches must not depend on it *)
Definition lines_high (w : nat) : lines := {| l_pins := repeat true w; l_dc := true; l_wr := true |}.
