Require Import Model.Base Corr.Common Corr.Draw Corr.L2 Corr.DrawL.
Definition oracle (v : verdict) : bool := v_framing v && v_no_anomaly v && v_nondraw_clean v.
(* at pin level, possibly after a faulted call: the traffic of every later call must still decode to well-framed
   groups that the controller accepts without anomaly *)
Definition oracle2 (v : verdict) : bool := v_framing v && v_nondraw_clean v && v_results_ok v && v_picture v.
Definition check := check_with oracle oracle2.
Definition model_out := Corr.DrawL.model_out.
