Require Import Model.Base Corr.Common Corr.Draw.
Definition oracle (v : verdict) : bool := v_framing v && v_no_anomaly v && v_nondraw_clean v.
Definition check (x : pcase * pout) : Z := code (corr_exact (fst x) (snd x)) (oracle (verdict_of x)).
Definition model_out := Corr.Draw.model_out.
