Require Import Model.Base Corr.Common Corr.Init.
Definition check (x : pcase * pout) : Z := code (corr_init (fst x) (snd x)) (init_judge (fst x) (snd x)).
Definition model_out (pc : pcase) := run_pcase pc.
