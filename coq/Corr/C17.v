(* Corr/C17.v — reset first: at the Interface boundary, below the real transports (decoded pin log; the
   data pins may idle low or high before the first word), and for an initialisation that is RETRIED over
   the same transport after a failed first attempt *)
Require Import Model.Base Model.Events Model.Builder Model.InitLang Model.Display Model.Spi Model.Parallel Model.Fault
               Corr.Common Corr.Init Corr.L2 Corr.DrawL Oracle.InitSpec.
Require Import Gen.Consts.
Open Scope Z_scope.

Inductive c17case := C17L (c : lcase) | C17R (pc : pcase).
(* retry: result and pin log of the faulted first init, result and pin log of the second *)
Inductive c17out := C17LO (o : lout) | C17RO (r1 : res) (l1 : list l2op) (r2 : res) (l2 : list l2op).

(* the k-th fallible operation of the first Builder::init fails; a second Builder::init with the same model and
   options then runs over the same transport (`&mut di`), starting from whatever state the fault left it in *)
Definition run_retry (pc : pcase) : option c17out :=
  match model_of_id (pc_model pc) with
  | None => None
  | Some m =>
      let ts0 := tstate_of pc m in
      let '(t, r) := builder_init (pc_md pc) (m_fw m) (m_fh m) (pc_rst pc) (pc_opts pc)
                       (run_init (kind_of_iface (pc_iface pc)) (m_color m) (pc_opts pc) (m_prog m)) in
      let '(an, ts1, o1, sane) := trans_events (pc_md pc) ts0 t in
      if negb sane then None
      else
        match cut_fault (pc_init_fail pc) ts0 an with
        | Some (l, failing, tsf) =>
            let '(an2, _, o2, sane2) := trans_events (pc_md pc) tsf t in
            if negb sane2 then None
            else
              Some (C17RO (RErr (match failing with ORst _ => EInitResetPin | _ => EInitInterface (tag_of failing ts0) end))
                          (merge_delays l)
                          (match r, o2 with Ok _, Ok _ => ROk | Ok _, x => res_of x | x, _ => res_of x end)
                          (merge_delays (map fst an2)))
        | None =>
            (* the fault index lies beyond the last operation of this init: both attempts run to the end *)
            let '(an2, _, o2, sane2) := trans_events (pc_md pc) ts1 t in
            if negb sane2 then None
            else
              Some (C17RO (match r, o1 with Ok _, Ok _ => ROk | Ok _, x => res_of x | x, _ => res_of x end)
                          (merge_delays (map fst an))
                          (match r, o2 with Ok _, Ok _ => ROk | Ok _, x => res_of x | x, _ => res_of x end)
                          (merge_delays (map fst an2)))
        end
  end.

Definition retry_eqb (a b : c17out) : bool :=
  match a, b with
  | C17RO r1 l1 r2 l2, C17RO r1' l1' r2' l2' => res_beq r1 r1' && l2ops_eqb l1 l1' && res_beq r2 r2' && l2ops_eqb l2 l2'
  | _, _ => false
  end.

(* what the panel sees of the second initialisation, decoded from the pins as the first attempt left them *)
Definition retry_ok (st0 : lines) (pc : pcase) (m : model_def) (o : c17out) : bool :=
  match o with
  | C17RO r1 l1 r2 l2 =>
      match decode_seq pc m st0 true [(is_err r1, l1); (false, l2)] with
      | [ev1; ev2] =>
          res_beq r2 ROk && reset_first_ok (pc_rst pc) ev2 &&
          (is_err r1 || reset_first_ok (pc_rst pc) ev1)
      | _ => false
      end
  | _ => false
  end.

Definition check_l (x : lcase * lout) : Z :=
  match x with
  | (L1 pc, LO1 p) => code (corr_init pc p) (reset_judge pc p)
  | (L2 pc, LO2 p) =>
      match model_of_id (pc_model pc) with
      | Some m => code (match run_pcase2 pc with Some mo => pout2_eqb mo p | None => false end)
                       (reset_judge pc (decode_pout2 pc m p) &&
                        reset_judge pc (decode_pout2_from (lines_high (bus_width pc)) pc m p))
      | None => 3
      end
  | _ => 3
  end.

Definition check (x : c17case * c17out) : Z :=
  match x with
  | (C17L c, C17LO o) => check_l (c, o)
  | (C17R pc, C17RO r1 l1 r2 l2) =>
      match model_of_id (pc_model pc) with
      | Some m => code (match run_retry pc with Some mo => retry_eqb mo (snd x) | None => false end)
                       (retry_ok (lines0 (bus_width pc)) pc m (snd x) && retry_ok (lines_high (bus_width pc)) pc m (snd x))
      | None => 3
      end
  | _ => 3
  end.

Definition model_out (c : c17case) : option c17out :=
  match c with
  | C17L c => option_map C17LO (Corr.DrawL.model_out c)
  | C17R pc => run_retry pc
  end.
