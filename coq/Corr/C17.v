(* Corr/C17.v — reset first: at the Interface boundary, and below the real transports (decoded pin log; the
   data pins may idle low or high before the first word) *)
Require Import Model.Base Corr.Common Corr.Init Corr.L2 Corr.DrawL.
Definition check (x : lcase * lout) : Z :=
  match x with
  | (L1 pc, LO1 p) => code (corr_init pc p) (reset_judge pc p)
  | (L2 pc, LO2 p) =>
      match model_of_id (pc_model pc) with
      | Some m => code (match run_pcase2 pc with Some mo => pout2_eqb mo p | None => false end)
                       (reset_judge pc (decode_pout2 pc m p) &&
                        reset_judge pc (decode_pout2_from (lines_high (bus_width pc)) pc m p))
      | None => 3
      end
  | _ => 3
  end.
Definition model_out := Corr.DrawL.model_out.
