Require Export Corr.Dcs.
Definition check := check18.
Definition model_out := model_dout.
