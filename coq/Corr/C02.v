Require Import Model.Base Corr.Common Corr.Draw Corr.L2 Corr.DrawL.
Definition oracle (v : verdict) : bool := v_results_ok v && v_no_anomaly v && v_confined v && v_writes v && v_framing v.
Definition oracle2 (v : verdict) : bool := v_results_ok v && v_no_anomaly v && v_confined v && v_picture v && v_framing v.
Definition check := check_with oracle oracle2.
Definition model_out := Corr.DrawL.model_out.
