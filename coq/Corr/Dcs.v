(* Corr/Dcs.v — correspondence + oracle for the pure dcs API (C14, C18) *)
Require Import Model.Base Model.Orient Model.Dcs Model.Events Corr.Common Oracle.Spec.
Open Scope Z_scope.

Inductive dcmd :=
| DCmd (c : dcs)
| DMadChain (l : list setter)                 (* SetAddressMode::default() followed by setters *)
| DMadNew (bgr : bool) (o : orient) (btt rtl : bool)
| DMadOpts (bgr : bool) (o : orient) (btt rtl : bool)
| DRaw (op : Z) (args : list Z).

Definition dcase := (Z * dcmd)%type.           (* buffer length, command *)
Definition dout := ((res * Z * Z * list Z) * bool * list event * bool * list event)%type.

Definition dcs_of (d : dcmd) : option dcs :=
  match d with
  | DCmd c => Some c
  | DMadChain l => Some (SetAddressMode (apply_setters 0 l))
  | DMadNew bgr o btt rtl => Some (SetAddressMode (madctl_new bgr o btt rtl))
  | DMadOpts bgr o btt rtl =>
      Some (SetAddressMode (madctl_of_opts {| o_bgr := bgr; o_orient := o; o_inv := false; o_btt := btt;
                                               o_rtl := rtl; o_w := 1; o_h := 1; o_ox := 0; o_oy := 0 |}))
  | DRaw _ _ => None
  end.

Definition model_dout (dc : dcase) : dout :=
  let '(buflen, d) := dc in
  match dcs_of d with
  | Some c =>
      let direct := match fill_params_buf c (repeat 0xEE (Z.to_nat buflen)) with
                    | Ok (n, buf) => (ROk, instruction c, n, buf)
                    | _ => (RPanic, instruction c, 0, [])
                    end in
      let ev := match write_command c with Ok e => [e] | _ => [] end in
      (direct, true, ev, true, ev)
  | None =>
      match d with
      | DRaw op args => ((ROk, op, 0, []), true, [write_raw op args], true, [write_raw op args])
      | _ => ((RPanic, 0, 0, []), false, [], false, [])
      end
  end.

Definition dout_eqb (a b : dout) : bool :=
  let '((r1, i1, n1, b1), o1, e1, p1, f1) := a in
  let '((r2, i2, n2, b2), o2, e2, p2, f2) := b in
  res_beq r1 r2 && (i1 =? i2) && (n1 =? n2) && zlist_eqb b1 b2 && Bool.eqb o1 o2 && events_eqb e1 e2
  && Bool.eqb p1 p2 && events_eqb f1 f2.

(* ---- C14 oracle: the byte on the bus is the MIPI encoding of the last value given per field ---- *)
Definition last_color (l : list setter) (d : bool) := fold_left (fun x s => match s with SColor c => c | _ => x end) l d.
Definition last_orient (l : list setter) (d : orient) := fold_left (fun x s => match s with SOrient o => o | _ => x end) l d.
Definition last_refresh (l : list setter) (d : bool * bool) :=
  fold_left (fun x s => match s with SRefresh v h => (v, h) | _ => x end) l d.

Definition spec_byte (d : dcmd) : option Z :=
  match d with
  | DMadChain l =>
      let '(v, h) := last_refresh l (false, false) in
      Some (spec_madctl (last_color l false) (last_orient l orient_new) v h)
  | DMadNew bgr o btt rtl | DMadOpts bgr o btt rtl => Some (spec_madctl bgr o btt rtl)
  | _ => None
  end.

Definition oracle14 (dc : dcase) (impl : dout) : bool :=
  let '((r, i, n, buf), ok1, e1, ok2, e2) := impl in
  match spec_byte (snd dc) with
  | Some b =>
      (i =? 0x36) && events_eqb e1 [ECmd 0x36 [b]] && events_eqb e2 [ECmd 0x36 [b]] && ok1 && ok2 &&
      (if 1 <=? fst dc then res_beq r ROk && (n =? 1) && zlist_eqb buf (b :: repeat 0xEE (Z.to_nat (fst dc) - 1))
       else res_beq r RPanic)
  | None => true
  end.

(* ---- C18 oracle: opcode + big-endian parameters, stated without the model's encoders ---- *)
Definition hi (v : Z) := v / 256.
Definition lo (v : Z) := v mod 256.
Definition spec_wire (c : dcs) : Z * list Z :=
  match c with
  | SoftReset => (0x01, []) | EnterSleepMode => (0x10, []) | ExitSleepMode => (0x11, [])
  | EnterPartialMode => (0x12, []) | EnterNormalMode => (0x13, [])
  | SetDisplayOff => (0x28, []) | SetDisplayOn => (0x29, [])
  | ExitIdleMode => (0x38, []) | EnterIdleMode => (0x39, []) | WriteMemoryStart => (0x2C, [])
  | SetAddressMode b => (0x36, [b])
  | SetPixelFormat dpi dbi => (0x3A, [16 * bpp_val dpi + bpp_val dbi])
  | SetColumnAddress s e => (0x2A, [hi s; lo s; hi e; lo e])
  | SetPageAddress s e => (0x2B, [hi s; lo s; hi e; lo e])
  | SetScrollArea t v b => (0x33, [hi t; lo t; hi v; lo v; hi b; lo b])
  | SetScrollStart o => (0x37, [hi o; lo o])
  | SetTearingEffect TeOff => (0x34, [])
  | SetTearingEffect TeVertical => (0x35, [0])
  | SetTearingEffect TeHV => (0x35, [1])
  | SetInvertMode false => (0x20, [])
  | SetInvertMode true => (0x21, [])
  end.

Definition oracle18 (dc : dcase) (impl : dout) : bool :=
  let '((r, i, n, buf), ok1, e1, ok2, e2) := impl in
  match snd dc with
  | DRaw op args => events_eqb e1 [ECmd op args] && events_eqb e2 [ECmd op args] && ok1 && ok2
  | d =>
      (* SetAddressMode values built through new / From<&ModelOptions> / with_*: the byte is the MIPI bit assignment
         (spec_byte), not what the model computes *)
      match match spec_byte d with Some b => Some (SetAddressMode b) | None => dcs_of d end with
      | None => false
      | Some c =>
          let '(op, ps) := spec_wire c in
          let len := Z.of_nat (length ps) in
          (i =? op) && events_eqb e1 [ECmd op ps] && events_eqb e2 [ECmd op ps] && ok1 && ok2 &&
          (if len <=? fst dc
           then res_beq r ROk && (n =? len) && zlist_eqb buf (ps ++ repeat 0xEE (Z.to_nat (fst dc - len)))
           else res_beq r RPanic)
      end
  end.

Definition check14 (x : dcase * dout) : Z :=
  code (dout_eqb (model_dout (fst x)) (snd x)) (oracle14 (fst x) (snd x)).
Definition check18 (x : dcase * dout) : Z :=
  code (dout_eqb (model_dout (fst x)) (snd x)) (oracle18 (fst x) (snd x)).
