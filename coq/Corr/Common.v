(* Common.v — glue for the correspondence check: model ids of the harness, case records, running a
   program case through the model, comparing with what the implementation printed. Not a proof file. *)
Require Import Model.Base Model.Orient Model.Dcs Model.Events Model.Builder Model.Rect Model.Batch
               Model.Display Model.InitLang Model.Color.
Require Import Gen.Models Gen.Consts.
From Coq Require Import String.
Open Scope Z_scope.

(* harness model ids (harness/src/models.rs) *)
Definition builtin_ids : list (Z * string) :=
  [(0, "GC9107"); (1, "GC9A01"); (2, "ILI9341Rgb565"); (3, "ILI9341Rgb666"); (4, "ILI9342CRgb565");
   (5, "ILI9342CRgb666"); (6, "ILI9486Rgb565"); (7, "ILI9486Rgb666"); (8, "ILI9488Rgb565");
   (9, "ILI9488Rgb666"); (10, "RM67162"); (11, "ST7735s"); (12, "ST7789"); (13, "ST7796")]%string.

Definition ext_def (w h : Z) (col : colorfmt) : model_def :=
  {| m_name := "Ext"; m_fw := w; m_fh := h; m_color := col; m_prog := prog_ext |}.
Definition ext_sizes : list (Z * (Z * Z)) :=
  [(0, (1, 1)); (1, (2, 1)); (2, (1, 3)); (3, (2, 5)); (4, (7, 3)); (5, (16, 16)); (6, (240, 320));
   (7, (300, 200)); (8, (65535, 65535)); (9, (65535, 1)); (10, (1, 65535)); (11, (40000, 50000));
   (12, (100, 60))].

(* colour stream k mod m, k < n (harness op `fcm`): a period that is not a power of two shows index shifts by 65536 *)
Fixpoint mod_colors_from (m k : Z) (n : nat) : list Z :=
  match n with O => [] | S n' => k mod m :: mod_colors_from m (k + 1) n' end.
Definition mod_colors (m n : Z) : list Z := mod_colors_from m 0 (Z.to_nat n).

Fixpoint assocZ {A} (k : Z) (l : list (Z * A)) : option A :=
  match l with [] => None | (k', v) :: l' => if k =? k' then Some v else assocZ k l' end.

Definition model_of_id (id : Z) : option model_def :=
  if id <? 100 then
    match assocZ id builtin_ids with Some n => find_model n gen_models | None => None end
  else if id <? 200 then
    match assocZ (id - 100) ext_sizes with Some (w, h) => Some (ext_def w h CRgb565) | None => None end
  else
    match assocZ (id - 200) ext_sizes with Some (w, h) => Some (ext_def w h CRgb666) | None => None end.

(* interface ids of the harness *)
Definition kind_of_iface (i : Z) : kind :=
  if (i =? 0) || (i =? 3) then Serial4Line
  else if (i =? 1) || (i =? 4) then Parallel8Bit else Parallel16Bit.
Definition word16_of_iface (i : Z) : bool := (i =? 2) || (i =? 5).

Record pcase := {
  pc_md : mode; pc_batch : bool; pc_model : Z; pc_iface : Z; pc_ifparam : Z;
  pc_rst : bool; pc_opts : opts;
  pc_init_fail : Z;                         (* -1 = none, else index of the failing fallible op *)
  pc_ops : list (Z * pop)                   (* (fail index or -1, operation) *)
}.

Definition obs := (Z * bool * Z * Z * bool * bool)%type.
Definition obs_eqb (a b : obs) : bool :=
  let '(r1, m1, w1, h1, s1, f1) := a in
  let '(r2, m2, w2, h2, s2, f2) := b in
  (r1 =? r2) && Bool.eqb m1 m2 && (w1 =? w2) && (h1 =? h2) && Bool.eqb s1 s2 && Bool.eqb f1 f2.

Definition opres := (res * list event * obs)%type.
Definition opres_eqb (a b : opres) : bool :=
  let '(r1, e1, o1) := a in let '(r2, e2, o2) := b in
  res_beq r1 r2 && events_eqb e1 e2 && obs_eqb o1 o2.

Definition pout := (res * list event * option obs * list opres)%type.
Definition pout_eqb (a b : pout) : bool :=
  let '(r1, e1, o1, l1) := a in let '(r2, e2, o2, l2) := b in
  res_beq r1 r2 && events_eqb e1 e2 &&
  match o1, o2 with Some x, Some y => obs_eqb x y | None, None => true | _, _ => false end &&
  list_eqb opres_eqb l1 l2.

Definition ctx_of (pc : pcase) (m : model_def) : ctx :=
  {| c_md := pc_md pc; c_batch := pc_batch pc; c_fw := m_fw m; c_fh := m_fh m;
     c_enc := enc_of (m_color m) (word16_of_iface (pc_iface pc));
     c_rowcap := Z.to_nat gen_MAX_ROW_SIZE; c_blockcap := Z.to_nat gen_MAX_BLOCK_SIZE |}.

(* run ops until a panic / budget stop, as the harness does *)
Fixpoint run_ops (c : ctx) (st : dstate) (ops : list (Z * pop)) : list opres :=
  match ops with
  | [] => []
  | (k, op) :: ops' =>
      let '(t, r, st') := if k <? 0 then step c st op else step_faulty c (Z.to_nat k) st op in
      (r, coalesce t, observe st') ::
      match r with RPanic | RBudget => [] | _ => run_ops c st' ops' end
  end.

Definition init_err_of (e : event) : err :=
  match e with ERstLow | ERstHigh => EInitResetPin | _ => EInitInterface IfRec end.

Definition run_pcase (pc : pcase) : option pout :=
  match model_of_id (pc_model pc) with
  | None => None
  | Some m =>
      let c := ctx_of pc m in
      let '(t, r) := builder_init (pc_md pc) (m_fw m) (m_fh m) (pc_rst pc) (pc_opts pc)
                       (run_init (kind_of_iface (pc_iface pc)) (m_color m) (pc_opts pc) (m_prog m)) in
      let cut := if pc_init_fail pc <? 0 then None else cut_at (Z.to_nat (pc_init_fail pc)) t in
      match cut with
      | Some t' => Some (RErr (init_err_of (last t' ERstLow)), coalesce t', None, [])
      | None =>
          match r with
          | Ok st => Some (ROk, coalesce t, Some (observe st), run_ops c st (pc_ops pc))
          | o => Some (res_of o, coalesce t, None, [])
          end
      end
  end.

(* result codes of a per-property check: 0 = fine; bit 0 = model and implementation differ on the
   property's observation; bit 1 = the oracle rejects the implementation's own trace *)
Definition code (corr_ok oracle_ok : bool) : Z :=
  (if corr_ok then 0 else 1) + (if oracle_ok then 0 else 2).

Fixpoint run_checks_from {A} (i : Z) (f : A -> Z) (l : list A) : list (Z * Z) :=
  match l with
  | [] => []
  | a :: l' => let r := f a in (if r =? 0 then [] else [(i, r)]) ++ run_checks_from (i + 1) f l'
  end.
Definition run_checks {A} (f : A -> Z) (l : list A) := run_checks_from 0 f l.
