(* Corr/C06.v — SpiInterface driven through its public API: model vs implementation, and the
   byte-level oracle on the implementation's own operation log. *)
Require Import Model.Base Model.Events Model.Spi Corr.Common.
Open Scope Z_scope.

Inductive scall :=
| SCmd (op : Z) (args : list Z)
| SPx (n : Z) (px : list (list Z))
| SRep (n : Z) (p : list Z) (count : Z).
Record scase := { sc_buflen : Z; sc_calls : list scall }.
Definition sout := (list (res * list l2op) * list Z)%type.

Definition call_model (buf : list Z) (cl : scall) : spi_result :=
  match cl with
  | SCmd op args => spi_send_command buf op args
  | SPx n px => spi_send_pixels n buf px
  | SRep n p c => spi_send_repeated true n buf p c
  end.

Fixpoint run_calls (buf : list Z) (cls : list scall) : list (res * list l2op) * list Z :=
  match cls with
  | [] => ([], buf)
  | cl :: r =>
      let '(ops, buf', o) := call_model buf cl in
      match res_of o with
      | ROk => let '(l, b) := run_calls buf' r in ((ROk, ops) :: l, b)
      | x => ([(x, ops)], buf')
      end
  end.
Definition model_sout (c : scase) : sout := run_calls (repeat 165 (Z.to_nat (sc_buflen c))) (sc_calls c).

Definition sout_eqb (a b : sout) : bool :=
  list_eqb (fun x y => res_beq (fst x) (fst y) && l2ops_eqb (snd x) (snd y)) (fst a) (fst b) && zlist_eqb (snd a) (snd b).

(* the event a call stands for *)
Definition event_of (cl : scall) : event :=
  match cl with SCmd op a => ECmd op a | SPx _ px => EPixels px | SRep _ p c => ERepeat p c end.
Definition call_bytes (cl : scall) : Z :=
  match cl with
  | SCmd _ a => 1 + Z.of_nat (length a)
  | SPx _ px => Z.of_nat (length (concat px))
  | SRep n _ c => n * c
  end.
Definition wire_eqb (a b : list (bool * Z)) : bool :=
  list_eqb (fun x y => Bool.eqb (fst x) (fst y) && (snd x =? snd y)) a b.
Definition only_spi_dc (ops : list l2op) : bool :=
  forallb (fun o => match o with ODc _ | OSpi _ => true | _ => false end) ops.

(* oracle: every call returns Ok (in particular: terminates), puts exactly the bytes of the call on the
   wire with DC low for instruction bytes only, and needs at most floor(bytes / usable) + 1 writes *)
Fixpoint oracle_calls (buflen : Z) (dc : bool) (cls : list scall) (outs : list (res * list l2op)) : bool :=
  match cls, outs with
  | [], [] => true
  | cl :: cr, (r, ops) :: orest =>
      res_beq r ROk && only_spi_dc ops &&
      wire_eqb (spi_wire dc ops) (wire_of_event (event_of cl)) &&
      (match cl with
       | SCmd _ _ => count_spi ops =? 2
       | SPx n _ | SRep n _ _ => count_spi ops <=? call_bytes cl / ((buflen / n) * n) + 1
       end) &&
      oracle_calls buflen (dc_after dc ops) cr orest
  | _, _ => false
  end.
Definition oracle (c : scase) (impl : sout) : bool := oracle_calls (sc_buflen c) true (sc_calls c) (fst impl).

Definition check (x : scase * sout) : Z := code (sout_eqb (model_sout (fst x)) (snd x)) (oracle (fst x) (snd x)).
Definition model_out := model_sout.
