(* Corr/C15.v — orientation words and angle parsing *)
Require Import Model.Base Model.Orient Model.Dcs Corr.Common Oracle.Spec Corr.Draw.
Open Scope Z_scope.

Inductive ocase :=
| OWord (o : orient) (w : list oop)
| OAngles (l : list Z)
| OAngleSum (lo hi : Z)
| OProg (pc : pcase).          (* a Display whose orientation is extended by words at run time, and drawn on *)
Inductive oout :=
| OWordOut (r : res) (rot : Z) (m : bool) (byte : Z)
| OAnglesOut (l : list (option (Z * Z)))
| OSumOut (s : Z)
| OProgOut (p : pout).

Definition rot_id (r : rot) : Z := match r with D0 => 0 | D90 => 1 | D180 => 2 | D270 => 3 end.
Definition opt_eqb (a b : option (Z * Z)) : bool :=
  match a, b with
  | Some x, Some y => pair_eqb x y
  | None, None => true
  | _, _ => false
  end.

Definition angle_model (a : Z) : option (Z * Z) :=
  match try_from_degree a with Some r => Some (rot_id r, degree r) | None => None end.

(* position-weighted checksum, same formula as the harness *)
Definition MODP : Z := 2305843009213693951.
Fixpoint sum_from (f : Z -> option (Z * Z)) (lo : Z) (n : nat) (pos acc : Z) : Z :=
  match n with
  | O => acc
  | S n' =>
      let v := match f lo with Some (r, _) => r + 1 | None => 0 end in
      sum_from f (lo + 1) n' (pos + 1) ((acc + (pos mod MODP) * v mod MODP) mod MODP)
  end.
Definition angle_sum (f : Z -> option (Z * Z)) (lo hi : Z) : Z := sum_from f lo (Z.to_nat (hi - lo + 1)) 1 0.

Fixpoint apply_word_madctl (o : orient) (b : Z) (w : list oop) : outcome (orient * Z) :=
  match w with
  | [] => Ok (o, b)
  | p :: w' => do o' <- apply_oop o p; apply_word_madctl o' (with_orientation b o') w'
  end.

Definition model_oout (c : ocase) : oout :=
  match c with
  | OWord o w =>
      (* the byte is updated in place with with_orientation after every step of the word *)
      match apply_word_madctl o (madctl_new false o false false) w with
      | Ok (o', b) => OWordOut ROk (rot_id (rotn o')) (mir o') b
      | _ => OWordOut RPanic 0 false 0
      end
  | OAngles l => OAnglesOut (map angle_model l)
  | OAngleSum lo hi => OSumOut (angle_sum angle_model lo hi)
  | OProg pc => match run_pcase pc with Some p => OProgOut p | None => OSumOut (-1) end
  end.

Definition oout_eqb (a b : oout) : bool :=
  match a, b with
  | OWordOut r1 x1 m1 b1, OWordOut r2 x2 m2 b2 => res_beq r1 r2 && (x1 =? x2) && Bool.eqb m1 m2 && (b1 =? b2)
  | OAnglesOut l1, OAnglesOut l2 => list_eqb opt_eqb l1 l2
  | OSumOut s1, OSumOut s2 => s1 =? s2
  | OProgOut _, OProgOut _ => true       (* compared by corr_ops in check *)
  | _, _ => false
  end.

(* oracle: geometry decides the expected orientation after each generator *)
Definition gen_of (p : oop) : gen := match p with ORot r => GRot r | OFlipH => GFlipH | OFlipV => GFlipV end.
Fixpoint spec_word (o : orient) (w : list oop) : option orient :=
  match w with
  | [] => Some o
  | p :: w' => match spec_apply_gen o (gen_of p) with [o'] => spec_word o' w' | _ => None end
  end.

Definition oracle (c : ocase) (impl : oout) : bool :=
  match c, impl with
  | OWord o w, OWordOut r x m b =>
      match spec_word o w with
      | Some o' => res_beq r ROk && (x =? rot_id (rotn o')) && Bool.eqb m (mir o') && (b =? spec_madctl false o' false false)
      | None => false
      end
  | OAngles l, OAnglesOut out => list_eqb opt_eqb (map spec_angle l) out
  | OAngleSum lo hi, OSumOut s => s =? angle_sum spec_angle lo hi
  | OProg pc, OProgOut p =>
      (* the picture decoded from the bus is the one the composed orientation must show, nothing lands outside the
         visible window, and the display reports the composed orientation and its size *)
      let v := judge pc p in
      v_results_ok v && v_no_anomaly v && v_writes v && v_confined v && v_obs v && v_madctl v
  | _, _ => false
  end.

Definition check (x : ocase * oout) : Z :=
  match x with
  | (OProg pc, OProgOut p) => code (corr_ops pc p) (oracle (fst x) (snd x))
  | _ => code (oout_eqb (model_oout (fst x)) (snd x)) (oracle (fst x) (snd x))
  end.
Definition model_out := model_oout.
